#!/usr/bin/env python3
"""C38 (E-MIRI): concurrent read-only queries on one shared analysis under Miri's seeded thread
scheduler and data-race detector, plus the compile-time Send+Sync gate (hook H3).

  c38.py check [--tier quick|thorough]
  c38.py replay --file replays/C38/<x>.json
"""
import json, os, subprocess, sys, time, hashlib, concurrent.futures

HERE = os.path.dirname(os.path.abspath(__file__))
CRATE = os.path.join(HERE, "miri-c38")
BASE_FLAGS = "-Zmiri-disable-stacked-borrows -Zmiri-disable-isolation"


def arg(name, default=None):
    a = sys.argv
    return a[a.index(name) + 1] if name in a and a.index(name) + 1 < len(a) else default


def known_findings():
    try:
        return json.load(open(os.path.join(HERE, "known-findings.json")))
    except Exception:
        return {"findings": [], "fixed": []}


def splitmix(x):
    x = (x + 0x9E3779B97F4A7C15) & 0xFFFFFFFFFFFFFFFF
    z = x
    z = ((z ^ (z >> 30)) * 0xBF58476D1CE4E5B9) & 0xFFFFFFFFFFFFFFFF
    z = ((z ^ (z >> 27)) * 0x94D049BB133111EB) & 0xFFFFFFFFFFFFFFFF
    return z ^ (z >> 31)


def env():
    e = dict(os.environ)
    e["CARGO_NET_OFFLINE"] = "true"
    return e


def static_gate():
    """Hook H3: every component of the shared analysis must be Send + Sync on its own."""
    # the simulation workspace builds emmylua_code_analysis with the verif-hooks feature (same
    # target directory as the other checks, so this is an incremental build)
    p = subprocess.run(["cargo", "build", "--release", "--offline", "-p", "an-sim"],
                       cwd=os.path.join(HERE, "sim"), env=env(), capture_output=True, text=True)
    if p.returncode == 0:
        return None
    err = p.stderr
    if "assert_send_sync" in err or "cannot be shared between threads safely" in err or "cannot be sent between threads safely" in err:
        # name the offending type
        import re
        m = re.search(r"`([^`]+)` cannot be (shared|sent) between threads safely", err)
        within = re.findall(r"required because it appears within the type `([^`]+)`", err)
        return {"class": "C38:not-send-sync:" + (within[-1] if within else (m.group(1) if m else "?")).split("::")[-1].split("<")[0],
                "detail": (m.group(0) if m else "") + " | " + " <- ".join(within[:4])}
    return {"harness": "build of emmylua_code_analysis with verif-hooks failed:\n" + err[-2000:]}


def run_one(seed, rate, threads, variant, mode=0):
    flags = f"{BASE_FLAGS} -Zmiri-seed={seed} -Zmiri-preemption-rate={rate}"
    e = env()
    e["MIRIFLAGS"] = flags
    t0 = time.time()
    p = subprocess.run(["cargo", "+nightly", "miri", "run", "--offline", "--", str(threads), str(variant), str(mode)],
                       cwd=CRATE, env=e, capture_output=True, text=True)
    out = p.stdout + "\n" + p.stderr
    res = {"seed": seed, "rate": rate, "threads": threads, "variant": variant, "mode": mode, "wall_s": round(time.time() - t0, 1), "flags": flags}
    if "Data race detected" in out:
        import re
        m = re.search(r"Data race detected[^\n]*", out)
        where = re.findall(r"-->\s*([^\n]+)", out)
        loc = where[0].strip() if where else "?"
        loc = loc.split("crates/")[-1] if "crates/" in loc else loc.split("/")[-1]
        res["class"] = "C38:data-race:" + loc.rsplit(":", 1)[0]
        res["detail"] = (m.group(0) if m else "data race") + " at " + loc
    elif "Undefined Behavior" in out:
        import re
        m = re.search(r"error: Undefined Behavior:[^\n]*", out)
        res["class"] = "C38:undefined-behavior"
        res["detail"] = m.group(0) if m else "UB"
    elif "MISMATCH" in out:
        res["class"] = "C38:concurrent-result-differs-from-sequential"
        lines = out.splitlines()
        i = [k for k, l in enumerate(lines) if "MISMATCH" in l][0]
        res["detail"] = " | ".join(l.strip() for l in lines[i:i + 3])[:400]
    elif "WORKLOAD-BLIND" in out:
        res["harness"] = "workload blind spot: " + [l for l in out.splitlines() if "WORKLOAD-BLIND" in l][0]
    elif "C38-RUN" in out and "equal=true" in out and p.returncode == 0:
        res["ok"] = True
        res["line"] = [l for l in out.splitlines() if l.startswith("C38-RUN")][0]
    elif "panicked" in out and p.returncode != 0 and "could not compile" not in out:
        res["class"] = "C38:query-thread-panicked"
        res["detail"] = [l for l in out.splitlines() if "panicked" in l][0][:300]
    else:
        res["harness"] = out[-1500:]
    return res


def write_replay(v):
    d = os.path.join(HERE, "replays", "C38")
    os.makedirs(d, exist_ok=True)
    path = os.path.join(d, hashlib.sha1(v["class"].encode()).hexdigest()[:16] + ".json")
    json.dump({"property": "C38", "engine": "E-MIRI", "violation_class": v["class"], "detail": v.get("detail", ""),
               "spec": {k: v.get(k) for k in ("seed", "rate", "threads", "variant", "mode", "flags")}}, open(path, "w"), indent=1)
    return path


def check():
    tier = arg("--tier", os.environ.get("VERIF_TIER", "quick"))
    base = int(os.environ.get("VERIF_SEED", "20260921"))
    t0 = time.time()
    print(f"VERIF_SEED={base} property=C38 tier={tier} engine=E-MIRI")
    kf = known_findings()
    violations, runs = [], []
    gate = static_gate()
    if gate and "harness" in gate:
        print("HARNESS-ERROR " + gate["harness"])
        return 2
    if gate:
        gate.update({"seed": 0, "rate": 0, "threads": 0, "variant": 0, "flags": "static gate (cargo build --features verif-hooks)"})
        violations.append(gate)
    plans = []
    if tier == "thorough":
        n = int(arg("--seeds", "36"))
        for i in range(n):
            s = splitmix(base * 1000003 + i) % (1 << 31)
            plans.append((s, ["0.01", "0.1", "0.5"][i % 3], 3 + (i % 2), i % 3, 0))
        # cheap lookup-only runs: many more schedules of the index read paths (cold first uses overlap)
        for i in range(int(arg("--lookup-seeds", "96"))):
            s = splitmix(base * 7000003 + i) % (1 << 31)
            plans.append((s, ["0.02", "0.1", "0.3", "0.6"][i % 4], 2 + (i % 3), i % 3, 1))
    else:
        n = int(arg("--seeds", "2"))
        for i in range(n):
            s = splitmix(base * 1000003 + i) % (1 << 31)
            plans.append((s, ["0.1", "0.5"][i % 2], 3, i % 2, 0))
        for i in range(int(arg("--lookup-seeds", "6"))):
            s = splitmix(base * 7000003 + i) % (1 << 31)
            plans.append((s, ["0.02", "0.1", "0.3", "0.6"][i % 4], 2 + (i % 3), i % 2, 1))
    if not gate:
        workers = int(os.environ.get("VERIF_WORKERS", "8"))
        # the first run also compiles the crate for Miri; the others then run in parallel
        runs.append(run_one(*plans[0]))
        if "harness" not in runs[0] and len(plans) > 1:
            with concurrent.futures.ThreadPoolExecutor(max_workers=workers) as ex:
                for r in ex.map(lambda p: run_one(*p), plans[1:]):
                    runs.append(r)
        for r in runs:
            if "harness" in r:
                print("HARNESS-ERROR miri run failed:\n" + r["harness"])
                return 2
            if "class" in r:
                violations.append(r)
    new_v = 0
    known_hits = 0
    reported = set()
    for v in violations:
        if v["class"] in reported:
            continue
        reported.add(v["class"])
        path = write_replay(v)
        k = [f for f in kf.get("findings", []) if f["property"] == "C38" and f["class"] == v["class"]]
        if k:
            known_hits += 1
            print(f"KNOWN-FINDING: property=C38 {k[0]['what']} [class {v['class']}, replay={path}]")
        else:
            new_v += 1
            print(f"VIOLATION property=C38 replay={path}")
            print(f"  class: {v['class']}")
            print(f"  detail: {v.get('detail', '')}")
    ok_runs = [r for r in runs if r.get("ok")]
    distinct = len({(r["seed"], r["rate"], r["threads"], r["variant"], r.get("mode", 0)) for r in runs})
    ev = {
        "property_id": "C38", "tier": tier, "seed": base, "level": "exploration",
        "coverage": {
            "evaluations": len(runs) + 1,
            "distinct_nontrivial": max(distinct, 0) + 1,
            "rule": "one evaluation = one execution of the miri-c38 program (index a 4-file workspace twice: on the first copy compute the results sequentially, on the second from 2-4 threads concurrently on one Arc<EmmyLuaAnalysis>, so that the concurrent readers meet every lazily filled structure cold; mode 0 = diagnostics + per-token semantic info of every file, mode 1 = index lookups only: exact / fuzzy / missing module resolution, type declarations, super and sub types, members, globals, references) under Miri with one (scheduler seed, preemption rate, thread count, workspace variant, mode); plus one evaluation for the compile-time Send+Sync gate; non-trivial = >=2 threads really interleaved by Miri's scheduler; distinct = distinct (seed, rate, threads, variant, mode)",
            "runs_by_mode": {"mode0_full_queries": len([r for r in runs if r.get("mode", 0) == 0]), "mode1_index_lookups": len([r for r in runs if r.get("mode", 0) == 1])},
            "samples": [{k: r.get(k) for k in ("seed", "rate", "threads", "variant", "mode", "wall_s", "line")} for r in (runs[:2] + runs[-2:])] or [{"static_gate": "failed"}],
            "static_gate": "passed: LuaCompilation, LuaDiagnostic, DbIndex, Vfs, Emmyrc and all 14 indexes are Send + Sync without the unsafe impl" if not gate else "FAILED",
            "miri_runs_ok": len(ok_runs),
            "scheduler_seeds": [r["seed"] for r in runs],
            "preemption_rates": sorted({r["rate"] for r in runs}),
            "real_components": ["EmmyLuaAnalysis::diagnose_file", "SemanticModel::get_semantic_info", "humanize_type", "indexing of the workspace (sequential)"],
            "stubbed_components": ["std library not loaded", "OS threads are Miri's simulated threads"],
            "violation_classes": sorted(reported),
        },
        "assumptions": ["-Zmiri-disable-stacked-borrows: rowan 0.16.1's arc.rs violates Stacked Borrows on the first parse (dependency issue unrelated to the property); the data-race detector stays on",
                        "Miri explores one schedule per seed; a clean batch is evidence, not proof"],
        "wall_s": round(time.time() - t0, 1),
        "violations": new_v,
    }
    os.makedirs(os.path.join(HERE, "evidence"), exist_ok=True)
    json.dump(ev, open(os.path.join(HERE, "evidence", "C38.json"), "w"), indent=1)
    print(f"runs={len(runs)} ok={len(ok_runs)} static_gate={'ok' if not gate else 'FAILED'} wall_s={ev['wall_s']} new_violations={new_v} known_findings={known_hits}")
    return 1 if new_v else 0


def replay():
    f = arg("--file")
    v = json.load(open(f))
    s = v["spec"]
    if s.get("threads", 0) == 0:
        g = static_gate()
        if g and g.get("class") == v["violation_class"]:
            print(f"REPLAY-OK class={g['class']}")
            print(f"VIOLATION property=C38 replay={f}")
            return 1
        print("REPLAY-CLEAN")
        return 0
    r = run_one(s["seed"], s["rate"], s["threads"], s["variant"], s.get("mode", 0))
    if r.get("class") == v["violation_class"]:
        print(f"REPLAY-OK class={r['class']} {r.get('detail', '')}")
        print(f"VIOLATION property=C38 replay={f}")
        return 1
    print(f"REPLAY-CLEAN (now: {r.get('class', 'ok')})")
    return 0


if __name__ == "__main__":
    cmd = sys.argv[1] if len(sys.argv) > 1 else "check"
    sys.exit(replay() if cmd == "replay" else check())
