simcore::define_getrandom!();
fn main() {
    println!("an-sim: not built yet");
}
