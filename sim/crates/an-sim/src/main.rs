//! E-AN / E-HS: seeded operation histories and hash-seed sweeps against the analysis library.
//!   an-sim check --prop C09 [--tier quick|thorough] [--runs N]
//!   an-sim replay --file F        an-sim one --prop C08 --index 3 [-v]

mod hist;
mod c33;
mod observe;
mod parse;
mod sweep;
mod ws;

use serde_json::{Map, Value};
use simcore::driver::{CaseReport, Engine};

simcore::define_getrandom!();

struct An;

impl Engine for An {
    fn engine_name(&self) -> &'static str {
        "E-AN"
    }
    fn generate(&self, prop: &str, seed: u64) -> Value {
        match prop {
            "C08" | "C09" | "C10" => serde_json::to_value(hist::generate(prop, seed)).unwrap(),
            "C11" => serde_json::to_value(sweep::c11_generate(seed)).unwrap(),
            "C04" => serde_json::to_value(parse::generate(seed)).unwrap(),
            "C33" => serde_json::to_value(c33::generate(seed)).unwrap(),
            "C32" => serde_json::to_value(sweep::c32_generate(seed)).unwrap(),
            "C35" => serde_json::to_value(sweep::c35_generate(seed)).unwrap(),
            _ => Value::Null,
        }
    }
    fn run(&self, prop: &str, spec: &Value, verbose: bool) -> CaseReport {
        match prop {
            "C08" | "C09" | "C10" => hist::run(prop, spec, verbose),
            "C11" => sweep::c11_run(spec, verbose),
            "C04" => parse::run(spec, verbose),
            "C33" => c33::run(spec, verbose),
            "C32" => sweep::c32_run(spec, verbose),
            "C35" => sweep::c35_run(spec, verbose),
            _ => CaseReport { error: Some(format!("unknown property {prop}")), ..Default::default() },
        }
    }
    fn shrink(&self, prop: &str, spec: &Value) -> Vec<Value> {
        match prop {
            "C08" | "C09" | "C10" | "C11" => hist::shrink(spec),
            "C32" => sweep::c32_shrink(spec),
            "C04" => parse::shrink(spec),
            "C33" => c33::shrink(spec),
            "C35" => sweep::c35_shrink(spec),
            _ => vec![],
        }
    }
    fn default_runs(&self, prop: &str, tier: &str) -> u64 {
        match (prop, tier) {
            ("C35", "thorough") => 3000,
            ("C35", _) => 64,
            ("C32", "quick") => 6000,
            ("C04", "quick") => 4000,
            ("C33", "quick") => 2500,
            (_, "thorough") => 200_000,
            _ => 1500,
        }
    }
    fn rule(&self, prop: &str) -> String {
        match prop {
            "C08" => "one evaluation = one generated workspace (2-7 interacting files) fully analysed and reindexed, then a history of unchanged re-submissions (single, batch in seeded order) and edit-then-restore pairs, with the full observation (diagnostics, per-token types and declarations, references, hover docs, type declarations, members, globals, module resolution) and every index container size compared with the pre-history state after every step; non-trivial = history non-empty and >=2 files; distinct = distinct digests of the observation sequence".into(),
            "C09" => "one evaluation = one generated workspace with a history of 3-24 updates / batches / removals (three removal paths) / config changes / reindexes, then reindex(), compared with a brand-new analysis of the surviving files (same order, same final config), with and without a reindex of the reference; non-trivial = history non-empty and >=2 files; distinct = distinct observation digests".into(),
            "C10" => "one evaluation = one generated workspace, optional edits, then removal of a seeded subset through the three removal paths; checked: no query result names a removed file, after reindex the observation equals a fresh analysis of the survivors, removing everything returns every index container to the empty-workspace baseline, 4 add+remove cycles hold no more state than 1; non-trivial = >=2 files and >=1 removal; distinct = distinct observation digests".into(),
            "C11" => format!("one evaluation = one generated workspace (cross-file globals with conflicting assignments, partial classes, aliases, enums, requires, cycles) registered in one fixed order through the batch path, optionally followed by a short history, executed under {} owned hash seeds on fresh threads; all canonical observations must be identical; non-trivial = >=2 files; distinct = distinct observation digests", sweep::sweep_width()),
            "C32" => "one evaluation = 1-3 generated configuration objects over the key space of the real configuration type (derived from Emmyrc::default(): every boolean / integer / optional / string-array key that round-trips, plus hand-listed enum-valued and object-array keys; each key spelled flat or nested at random; sibling keys whose names share a textual prefix placed longer-first in a sixth of the cases; occasionally a key that is both a value and a prefix) loaded in order through load_configs - from files on disk, as in-memory partial configurations, or mixed - under 16 owned hash seeds; oracle 1: identical outcome (serialized Emmyrc or panic) under every seed; oracle 2: equals an independent flatten / later-wins / append-without-duplicates reference merge; non-trivial = >=2 files or >=2 keys; distinct = distinct outcome digests".to_string(),
            "C35" => "one evaluation = one generated workspace on disk (3-8 files declaring uniquely named classes, enums, aliases, globals, modules; some split across files, some in a library root) exported with the real run_doc_cli(json) (std library loaded) under up to 6 owned hash seeds; output bytes must be identical; the first export must list every main-workspace type exactly once, every main-workspace file that ends in `return <one expression>` exactly once as a module (whatever the shape of the expression: local, table, closure, call, member access, literal, require), every global once per declaration site, and nothing from the library root or std; non-trivial = >=3 files; distinct = distinct output digests".to_string(),
            "C04" => "one evaluation = one history of 5-40 operations (set file content, remove file, change parser-relevant configuration: language level, non-standard symbols, require-like functions) on one analysis/Vfs with its shared node cache, over 1-4 files, texts drawn from lines chosen to maximise green-node sharing (near-duplicates, same token text in different roles, level-dependent tokens, doc comments vs code, CRLF); after every operation the cached tree dump, error list and tree text of every live file must equal a standalone parse with a brand-new node cache and the configuration in force when that file was set; non-trivial = >=2 content sets; distinct = distinct digests of all tree dumps".to_string(),
            "C33" => "one evaluation = one generated tree (nested dirs, init.lua, duplicate leaf names, a library root outside and/or inside the main root, optional .lua.txt extension) x requirePattern / moduleMap (three rule shapes: prefix rewrite, last-segment rewrite, whole-name rule) / strict.requirePath configuration x add/remove/re-add history (three removal paths) with mid-history lookups x ~10-60 require strings, executed under 4 sweep points (hash seeds, heap layouts); find_module answers must be identical at every point and legal by an independent resolver (exact candidates, then moduleMap, then fuzzy suffix candidates only when strict.requirePath is off; never a removed file; must resolve when a pattern selects a single-derivation file, also through a moduleMap rewrite; exact beats fuzzy); the same history without its lookup steps must end with the same answers (lookups are read-only); go-to-definition on the require string must land in the resolved file; non-trivial = >=2 files; distinct = distinct answer digests".to_string(),
            _ => String::new(),
        }
    }
    fn assumptions(&self, _prop: &str) -> Vec<String> {
        vec![
            "histories are single-threaded (no thread or task is created in emmylua_code_analysis); the only nondeterminism is hash iteration order, pinned per run by the hash-seed seam".into(),
            "a case whose outcome differs between hash seeds is counted and excluded (it is C11's subject)".into(),
            "observation goes through public query APIs plus the feature-gated size report (hook H2)".into(),
        ]
    }
    fn extra_coverage(&self, _prop: &str) -> Map<String, Value> {
        let mut m = Map::new();
        m.insert("real_components".into(), serde_json::json!(["EmmyLuaAnalysis", "LuaCompilation / analyzers", "DbIndex and every index", "Vfs and parser", "LuaDiagnostic checkers", "SemanticModel queries"]));
        m.insert("stubbed_components".into(), serde_json::json!(["file system (paths are virtual; no disk access in these operations)", "std library (not loaded)"]));
        m
    }
    fn warm_up(&self) {
        let spec = self.generate("C09", 0x5eed_0009);
        let _ = self.run("C09", &spec, false);
    }
}

fn main() {
    simcore::panics::install_quiet_hook();
    std::process::exit(simcore::driver::main_dispatch(&An));
}
