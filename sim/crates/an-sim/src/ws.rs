//! Generated workspaces: small sets of Lua files drawn from templates that interact across files
//! (classes split across files with descriptions, globals defined/used/conflicting across files,
//! require chains and cycles, aliases, enums, operators, diagnostic comments, syntax errors, meta
//! files, a library root), each with a few text variants used as edits.

use serde::{Deserialize, Serialize};
use simcore::Rng;

#[derive(Serialize, Deserialize, Clone, Debug, PartialEq)]
pub struct FileSpec {
    pub rel: String,
    pub kind: String,
    /// template parameter (names are derived from it so that groups of files interact)
    pub n: u32,
    /// text mutations applied to every variant of the file, in order: they take the workspace off
    /// the beaten track of the templates (declarations grafted from other files, shifted
    /// positions, deleted lines, identifiers renamed onto names of other groups)
    #[serde(default, skip_serializing_if = "Vec::is_empty")]
    pub muts: Vec<Mut>,
}

#[derive(Serialize, Deserialize, Clone, Debug, PartialEq)]
pub enum Mut {
    /// prepend `k` comment lines: every position in the file shifts
    Shift(u32),
    /// append a line (taken from another file of the workspace when the spec was generated)
    Append(String),
    /// insert a line before line `at % (lines + 1)`
    Insert(usize, String),
    /// delete line `i % lines`
    Delete(usize),
    /// replace every whole-word occurrence of identifier `.0` by `.1`
    Rename(String, String),
}

fn is_ident_char(c: char) -> bool {
    c.is_ascii_alphanumeric() || c == '_'
}

fn rename_ident(text: &str, from: &str, to: &str) -> String {
    if from.is_empty() {
        return text.to_string();
    }
    let mut out = String::new();
    let mut i = 0;
    while i < text.len() {
        if text[i..].starts_with(from) {
            let before_ok = text[..i].chars().next_back().map(|c| !is_ident_char(c)).unwrap_or(true);
            let after_ok = text[i + from.len()..].chars().next().map(|c| !is_ident_char(c)).unwrap_or(true);
            if before_ok && after_ok {
                out.push_str(to);
                i += from.len();
                continue;
            }
        }
        let ch = text[i..].chars().next().unwrap();
        out.push(ch);
        i += ch.len_utf8();
    }
    out
}

/// Text of variant `variant` of a file, mutations applied.
pub fn text_of(f: &FileSpec, variant: u32) -> String {
    let mut t = file_text(&f.kind, f.n, variant);
    for m in &f.muts {
        match m {
            Mut::Shift(k) => {
                let mut pre = String::new();
                for i in 0..*k {
                    pre.push_str(&format!("-- shifted {i}\n"));
                }
                t = pre + &t;
            }
            Mut::Append(line) => {
                if !t.ends_with('\n') && !t.is_empty() {
                    t.push('\n');
                }
                t.push_str(line);
                t.push('\n');
            }
            Mut::Insert(at, line) => {
                let mut lines: Vec<&str> = t.lines().collect();
                let at = at % (lines.len() + 1);
                lines.insert(at, line.as_str());
                t = lines.join("\n") + "\n";
            }
            Mut::Delete(i) => {
                let mut lines: Vec<&str> = t.lines().collect();
                if !lines.is_empty() {
                    lines.remove(i % lines.len());
                    t = lines.join("\n") + "\n";
                }
            }
            Mut::Rename(a, b) => t = rename_ident(&t, a, b),
        }
    }
    t
}

/// Identifiers of a text that look like names introduced by the templates (contain a digit).
fn idents_of(text: &str) -> Vec<String> {
    let mut out: Vec<String> = Vec::new();
    let mut cur = String::new();
    for ch in text.chars().chain(std::iter::once(' ')) {
        if is_ident_char(ch) {
            cur.push(ch);
        } else {
            if cur.len() >= 2 && cur.chars().next().map(|c| c.is_ascii_alphabetic()).unwrap_or(false) && cur.chars().any(|c| c.is_ascii_digit()) && !out.contains(&cur) {
                out.push(cur.clone());
            }
            cur.clear();
        }
    }
    out
}

/// Add 1-3 seeded mutations to the files of a workspace.
pub fn mutate_workspace(r: &mut Rng, files: &mut [FileSpec]) {
    if files.is_empty() {
        return;
    }
    for _ in 0..r.range(1, 3) {
        let f = r.usize_below(files.len());
        if files[f].kind == "broken" {
            continue;
        }
        let g = r.usize_below(files.len());
        let other = file_text(&files[g].kind, files[g].n, r.below(VARIANTS as u64) as u32);
        let m = match r.below(6) {
            0 => Mut::Shift(r.range(1, 3) as u32),
            1 | 2 => {
                // graft a declaration-like line of another file (a class / field / alias / enum
                // annotation, an assignment, a function header closed on the same line)
                let cands: Vec<&str> = other
                    .lines()
                    .filter(|l| {
                        let t = l.trim_start();
                        t.starts_with("---@class") || t.starts_with("---@field") || t.starts_with("---@alias") || t.starts_with("---@enum") || t.starts_with("---@type") || (t.contains(" = ") && !t.starts_with("local function") && !t.ends_with('{') && !t.starts_with("return"))
                    })
                    .collect();
                if cands.is_empty() {
                    continue;
                }
                let line = (*r.pick(&cands)).to_string();
                if r.chance(1, 2) { Mut::Append(line) } else { Mut::Insert(r.below(40) as usize, line) }
            }
            3 => Mut::Delete(r.below(40) as usize),
            _ => {
                let mine = idents_of(&file_text(&files[f].kind, files[f].n, 0));
                let theirs = idents_of(&other);
                if mine.is_empty() || theirs.is_empty() {
                    continue;
                }
                let a = r.pick(&mine).clone();
                let b = r.pick(&theirs).clone();
                if a == b {
                    continue;
                }
                Mut::Rename(a, b)
            }
        };
        files[f].muts.push(m);
    }
}

pub const VARIANTS: u32 = 3;

/// Text of a file of `kind` with group number `n` in `variant`.
pub fn file_text(kind: &str, n: u32, variant: u32) -> String {
    let v = variant % VARIANTS;
    match kind {
        // ---- class split over two files, description only in the first
        "class_a" => match v {
            0 => format!("---Doc of Cls{n}\n---@class Cls{n}\n---@field x integer\nlocal Cls{n} = {{}}\n\n---method doc\n---@return integer\nfunction Cls{n}:foo()\n    return self.x\nend\n\nreturn Cls{n}\n"),
            1 => format!("---Doc of Cls{n} (edited)\n---@class Cls{n}\n---@field x string\n---@field z boolean\nlocal Cls{n} = {{}}\n\n---@return string\nfunction Cls{n}:foo()\n    return self.x\nend\n\nfunction Cls{n}:bar()\n    return self.z\nend\n\nreturn Cls{n}\n"),
            _ => format!("---@class Cls{n}\nlocal Cls{n} = {{}}\nreturn Cls{n}\n"),
        },
        "class_b" => match v {
            0 => format!("---@class Cls{n}\n---@field y string\nlocal Part{n} = {{}}\n\nfunction Part{n}:baz()\n    return self.y\nend\n\n---@type Cls{n}\nlocal inst{n} = {{}}\nlocal r{n} = inst{n}.x\nreturn r{n}\n"),
            1 => format!("---@class (partial) Cls{n}\n---@field y number\nlocal Part{n} = {{}}\n---@type Cls{n}\nlocal inst{n} = {{}}\nlocal r{n} = inst{n}.y\nreturn r{n}\n"),
            _ => format!("---@type Cls{n}\nlocal inst{n} = {{}}\nlocal r{n} = inst{n}:foo()\nreturn r{n}\n"),
        },
        // ---- globals
        "glob_def" => match v {
            0 => format!("Glob{n} = 1\n\n---global function doc\n---@param a integer\n---@return integer\nfunction GlobFn{n}(a)\n    return a + Glob{n}\nend\n"),
            1 => format!("Glob{n} = \"text\"\n\n---@param a string\n---@return string\nfunction GlobFn{n}(a)\n    return a .. Glob{n}\nend\n"),
            _ => format!("---@type table<string, integer>\nGlob{n} = {{}}\nGlob{n}.field = 1\n"),
        },
        "glob_use" => match v {
            0 => format!("local v{n} = Glob{n}\nlocal w{n} = GlobFn{n}(v{n})\nreturn w{n}\n"),
            1 => format!("local v{n} = GlobFn{n}\nlocal unused{n} = Glob{n}\nreturn v{n}\n"),
            _ => format!("print(Glob{n}, GlobUndefined{n})\n"),
        },
        "glob_conflict" => match v {
            0 => format!("Glob{n} = \"conflict\"\n"),
            1 => format!("---@type boolean\nGlob{n} = true\n"),
            _ => format!("function GlobFn{n}()\n    return nil\nend\n"),
        },
        // ---- modules and require
        "mod" => match v {
            0 => format!("local M = {{}}\nM.value = {n}\n\n---module fn doc\nfunction M.get()\n    return M.value\nend\n\nreturn M\n"),
            1 => format!("local M = {{}}\nM.value = \"s{n}\"\nM.extra = true\nfunction M.get()\n    return M.value\nend\nreturn M\n"),
            _ => format!("return {{ value = {n}, get = function() return {n} end }}\n"),
        },
        "mod_use" => match v {
            0 => format!("local m = require(\"mods.mod{n}\")\nlocal x{n} = m.get()\nlocal y{n} = m.value\nreturn x{n}, y{n}\n"),
            1 => format!("local m = require(\"mods.mod{n}\")\nlocal e{n} = m.extra\nreturn e{n}\n"),
            _ => format!("local m = require(\"mod{n}\")\nlocal missing = require(\"no.such.module{n}\")\nreturn m, missing\n"),
        },
        "cycle_a" => match v {
            0 => format!("local b = require(\"cyc.b{n}\")\nlocal A = {{}}\nA.name = \"a{n}\"\nfunction A.peer()\n    return b.name\nend\nreturn A\n"),
            1 => format!("local A = {{}}\nA.name = 1\nreturn A\n"),
            _ => format!("local b = require(\"cyc.b{n}\")\nreturn b\n"),
        },
        "cycle_b" => match v {
            0 => format!("local a = require(\"cyc.a{n}\")\nlocal B = {{}}\nB.name = \"b{n}\"\nfunction B.peer()\n    return a.name\nend\nreturn B\n"),
            1 => format!("local B = {{}}\nB.name = true\nreturn B\n"),
            _ => format!("local a = require(\"cyc.a{n}\")\nreturn a\n"),
        },
        // ---- alias / enum
        "types" => match v {
            0 => format!("---@alias Id{n} integer|string\n\n---Color doc\n---@enum Color{n}\nlocal Color{n} = {{\n    Red = 1,\n    Green = 2,\n}}\n\n---@class Vec{n}\n---@field x number\n---@operator add(Vec{n}): Vec{n}\n---@operator unm: Vec{n}\nlocal Vec{n} = {{}}\n\nreturn Color{n}\n"),
            1 => format!("---@alias Id{n} integer\n\n---@enum Color{n}\nlocal Color{n} = {{\n    Red = \"r\",\n    Blue = \"b\",\n}}\n\n---@class Vec{n}\n---@field x number\n---@field y number\n---@operator add(Vec{n}): Vec{n}\nlocal Vec{n} = {{}}\nreturn Color{n}\n"),
            _ => format!("---@alias Id{n} boolean\nreturn nil\n"),
        },
        "types_use" => match v {
            0 => format!("---@type Id{n}\nlocal id{n} = 1\n\n---@type Color{n}\nlocal c{n} = 1\n\n---@type Vec{n}\nlocal a{n} = {{ x = 1 }}\n---@type Vec{n}\nlocal b{n} = {{ x = 2 }}\nlocal s{n} = a{n} + b{n}\nlocal neg{n} = -a{n}\nreturn id{n}, c{n}, s{n}, neg{n}\n"),
            1 => format!("---@param id Id{n}\n---@param c Color{n}\nlocal function f{n}(id, c)\n    return id, c\nend\nreturn f{n}(\"x\", 3)\n"),
            _ => format!("---@type Vec{n}\nlocal a{n} = {{}}\nreturn a{n}.y\n"),
        },
        // ---- diagnostic comments
        "diag" => match v {
            0 => format!("---@diagnostic disable-next-line: undefined-global\nprint(undefinedThing{n})\nprint(otherUndefined{n})\nlocal unusedLocal{n} = 1\n"),
            1 => format!("---@diagnostic disable: undefined-global\nprint(undefinedThing{n})\nprint(otherUndefined{n})\n---@diagnostic enable: undefined-global\nprint(third{n})\n"),
            _ => format!("local a{n} = 1\nlocal a{n} = 2\nreturn a{n}\n"),
        },
        // ---- syntax errors
        "broken" => match v {
            0 => format!("local function broken{n}(\n    return 1\nend\nlocal ok{n} = 1\n"),
            1 => format!("local t{n} = {{ 1, 2,\nfor i = 1 do end\n"),
            _ => format!("local fine{n} = 1\nreturn fine{n}\n"),
        },
        // ---- meta file
        "meta" => match v {
            0 => format!("---@meta metamod{n}\n\n---@class MetaCls{n}\n---@field handle integer\n\n---meta fn doc\n---@param c MetaCls{n}\n---@return integer\nfunction MetaFn{n}(c) end\n"),
            1 => format!("---@meta metamod{n}\n\n---@class MetaCls{n}\n---@field handle string\n\n---@param c MetaCls{n}\n---@return string\nfunction MetaFn{n}(c) end\n"),
            _ => format!("---@meta\n\n---@class MetaCls{n}\n"),
        },
        "meta_use" => match v {
            0 => format!("---@type MetaCls{n}\nlocal mc{n} = {{ handle = 1 }}\nlocal h{n} = MetaFn{n}(mc{n})\nreturn h{n}\n"),
            1 => format!("local h{n} = MetaFn{n}(nil)\nreturn h{n}\n"),
            _ => format!("return MetaFn{n}\n"),
        },
        // ---- library root file
        "lib" => match v {
            0 => format!("---library class doc\n---@class LibCls{n}\n---@field id integer\nlocal LibCls{n} = {{}}\nLibGlob{n} = LibCls{n}\nlocal unusedInLib{n} = undefinedInLib{n}\nreturn LibCls{n}\n"),
            1 => format!("---@class LibCls{n}\n---@field id string\nlocal LibCls{n} = {{}}\nLibGlob{n} = 1\nreturn LibCls{n}\n"),
            _ => format!("return {{}}\n"),
        },
        // ---- a class declared both in the library root and in the main workspace (C35 only: not in
        // GROUP_KINDS, so the other checks' workspaces are unchanged)
        "libpart_lib" => match v {
            0 => format!("---@class SharedCls{n}\n---@field from_lib integer\n\n---@class LibOnlyCls{n}\n"),
            _ => format!("---@class (partial) SharedCls{n}\n---@field from_lib integer\n\n---@alias SharedAlias{n} integer\n"),
        },
        "libpart_main" => match v {
            0 => format!("---@class SharedCls{n}\n---@field from_main string\n\n---@class MainOnlyCls{n}\n"),
            _ => format!("---@class (partial) SharedCls{n}\n---@field from_main string\nlocal S{n} = {{}}\nreturn S{n}\n"),
        },
        "lib_use" => match v {
            0 => format!("local L = require(\"libmod{n}\")\n---@type LibCls{n}\nlocal l{n} = L\nlocal i{n} = l{n}.id\nreturn i{n}, LibGlob{n}\n"),
            1 => format!("---@type LibCls{n}\nlocal l{n} = {{}}\nreturn l{n}.id\n"),
            _ => format!("return LibGlob{n}\n"),
        },
        // ---- a partial class that gets a different base class from each of two files; both
        // bases declare the member `v` with different types
        "inh_bases" => match v {
            0 => format!("---@class BaseS{n}\n---@field v string\n\n---@class BaseI{n}\n---@field v integer\n---@field only_i boolean\n"),
            1 => format!("---@class BaseS{n}\n---@field v string\n---@field extra number\n\n---@class BaseI{n}\n---@field v integer\n"),
            _ => format!("---@class BaseS{n}\n---@class BaseI{n}\n"),
        },
        "inh_part_a" => match v {
            0 => format!("---@class (partial) Multi{n}: BaseS{n}\n---@field a integer\nlocal A{n} = {{}}\nreturn A{n}\n"),
            1 => format!("---@class (partial) Multi{n}: BaseS{n}, BaseI{n}\nlocal A{n} = {{}}\nreturn A{n}\n"),
            _ => format!("---@class (partial) Multi{n}\nlocal A{n} = {{}}\nreturn A{n}\n"),
        },
        "inh_part_b" => match v {
            0 => format!("---@class (partial) Multi{n}: BaseI{n}\n---@field b string\nlocal B{n} = {{}}\nreturn B{n}\n"),
            1 => format!("---@class (partial) Multi{n}: BaseI{n}\nlocal B{n} = {{}}\nfunction B{n}:m() return self.v end\nreturn B{n}\n"),
            _ => format!("local B{n} = {{}}\nreturn B{n}\n"),
        },
        "inh_use" => match v {
            0 => format!("---@type Multi{n}\nlocal m{n} = {{}}\n---@type string\nlocal s{n} = m{n}.v\nlocal o{n} = m{n}.only_i\nreturn s{n}, o{n}\n"),
            1 => format!("---@type Multi{n}\nlocal m{n} = {{}}\nlocal w{n} = m{n}.v\nreturn w{n}\n"),
            _ => format!("---@param m Multi{n}\nlocal function f{n}(m)\n    return m.v, m.a, m.b\nend\nreturn f{n}\n"),
        },
        // ---- the same member key of one table / class defined in two different files
        "memb_a" => match v {
            0 => format!("---@class Conf{n}\nConf{n} = {{}}\nConf{n}.level = 1\n\n---@class (partial) Opt{n}\n---@field k integer\n"),
            1 => format!("---@class Conf{n}\nConf{n} = {{}}\nConf{n}.level = true\nfunction Conf{n}.get() return 1 end\n\n---@class (partial) Opt{n}\n---@field k boolean\n"),
            _ => format!("---@class Conf{n}\nConf{n} = {{}}\n"),
        },
        "memb_b" => match v {
            0 => format!("Conf{n}.level = \"high\"\nfunction Conf{n}.get() return \"s\" end\n\n---@class (partial) Opt{n}\n---@field k string\n"),
            1 => format!("Conf{n}.level = 2.5\n\n---@class (partial) Opt{n}\n---@field k number\n---@field only_b integer\n"),
            _ => format!("Conf{n}.other = 1\n"),
        },
        "memb_use" => match v {
            0 => format!("local lv{n} = Conf{n}.level\nlocal g{n} = Conf{n}.get()\n---@type Opt{n}\nlocal o{n} = {{}}\nlocal k{n} = o{n}.k\nreturn lv{n}, g{n}, k{n}\n"),
            1 => format!("---@type Opt{n}\nlocal o{n} = {{}}\n---@type string\nlocal ks{n} = o{n}.k\nreturn ks{n}\n"),
            _ => format!("return Conf{n}.level\n"),
        },
        // ---- generics: a generic global function and a generic class, used from another file
        "gen_def" => match v {
            0 => format!("---generic identity\n---@generic T\n---@param x T\n---@return T\nfunction Ident{n}(x)\n    return x\nend\n\n---@class Box{n}<T>\n---@field value T\n---@field items T[]\nlocal Box{n} = {{}}\n\n---@generic T\n---@param v T\n---@return Box{n}<T>\nfunction NewBox{n}(v)\n    return {{ value = v, items = {{ v }} }}\nend\n"),
            1 => format!("---@generic T, U\n---@param x T\n---@param y U\n---@return U\nfunction Ident{n}(x, y)\n    return y\nend\n\n---@class Box{n}<T>\n---@field value T[]\nlocal Box{n} = {{}}\n\n---@generic T\n---@param v T\n---@return Box{n}<T>\nfunction NewBox{n}(v)\n    return {{ value = {{ v }} }}\nend\n"),
            _ => format!("---@class Box{n}\n---@field value integer\n\nfunction Ident{n}(x)\n    return x\nend\n"),
        },
        "gen_use" => match v {
            0 => format!("local a{n} = Ident{n}(1)\nlocal b{n} = Ident{n}(\"s\")\n---@type Box{n}<string>\nlocal bx{n} = {{}}\nlocal bv{n} = bx{n}.value\nlocal nb{n} = NewBox{n}(true)\nlocal nv{n} = nb{n}.value\nreturn a{n}, b{n}, bv{n}, nv{n}\n"),
            1 => format!("---@type Box{n}<integer>\nlocal bx{n} = {{}}\nfor _, it{n} in ipairs(bx{n}.items) do\n    print(it{n})\nend\nreturn Ident{n}(bx{n}, 2)\n"),
            _ => format!("return NewBox{n}\n"),
        },
        // ---- overloads, nodiscard, deprecated, visibility
        "ovl_def" => match v {
            0 => format!("---overloaded\n---@param a integer\n---@return integer\n---@overload fun(a: string): string\n---@overload fun(a: boolean, b: integer): boolean\nfunction Ovl{n}(a)\n    return a\nend\n\n---old api\n---@deprecated use Ovl{n}\n---@return integer\nfunction Old{n}()\n    return 1\nend\n\n---@nodiscard\n---@return integer\nfunction Must{n}()\n    return 1\nend\n\n---@class Vis{n}\n---@field private secret integer\n---@field protected prot string\n---@field public open boolean\nVis{n} = {{}}\n\n---@private\nfunction Vis{n}:hidden()\n    return self.secret\nend\n"),
            1 => format!("---@param a integer\n---@return integer\n---@overload fun(a: string): boolean\nfunction Ovl{n}(a)\n    return a\nend\n\n---@return string\nfunction Old{n}()\n    return \"\"\nend\n\n---@return integer\nfunction Must{n}()\n    return 1\nend\n\n---@class Vis{n}\n---@field secret integer\n---@field open boolean\nVis{n} = {{}}\nfunction Vis{n}:hidden()\n    return self.secret\nend\n"),
            _ => format!("function Ovl{n}(a)\n    return a\nend\n---@class Vis{n}\nVis{n} = {{}}\n"),
        },
        "ovl_use" => match v {
            0 => format!("local i{n} = Ovl{n}(1)\nlocal s{n} = Ovl{n}(\"x\")\nlocal b{n} = Ovl{n}(true, 2)\nlocal o{n} = Old{n}()\nMust{n}()\n---@type Vis{n}\nlocal vis{n} = Vis{n}\nlocal sec{n} = vis{n}.secret\nlocal op{n} = vis{n}.open\nvis{n}:hidden()\nreturn i{n}, s{n}, b{n}, o{n}, sec{n}, op{n}\n"),
            1 => format!("local s{n} = Ovl{n}(\"x\")\n---@class Sub{n}: Vis{n}\nlocal Sub{n} = {{}}\nfunction Sub{n}:peek()\n    return self.prot, self.secret\nend\nreturn s{n}, Sub{n}\n"),
            _ => format!("return Old{n}(), Must{n}()\n"),
        },
        // ---- namespaces
        "ns_def" => match v {
            0 => format!("---@namespace Space{n}\n\n---namespaced class\n---@class Thing{n}\n---@field id integer\n\n---@alias ThingId{n} integer\n\n---@enum Mode{n}\nlocal Mode{n} = {{ On = 1, Off = 2 }}\nreturn Mode{n}\n"),
            1 => format!("---@namespace Space{n}\n\n---@class Thing{n}\n---@field id string\n---@field extra boolean\n\n---@alias ThingId{n} string\n"),
            _ => format!("---@class Thing{n}\n---@field id boolean\n"),
        },
        "ns_use" => match v {
            0 => format!("---@using Space{n}\n\n---@type Thing{n}\nlocal t{n} = {{}}\nlocal id{n} = t{n}.id\n---@type ThingId{n}\nlocal tid{n} = 1\n---@type Space{n}.Mode{n}\nlocal m{n} = 1\nreturn id{n}, tid{n}, m{n}\n"),
            1 => format!("---@type Space{n}.Thing{n}\nlocal t{n} = {{}}\nreturn t{n}.id, t{n}.extra\n"),
            _ => format!("---@type Thing{n}\nlocal t{n} = {{}}\nreturn t{n}.id\n"),
        },
        // ---- callable classes, index operators, metatables, key enums, function-typed fields
        "call_def" => match v {
            0 => format!("---@class Callable{n}\n---@overload fun(x: integer): string\n---@operator call(integer): string\n---@operator index(string): boolean\n---@operator concat(Callable{n}): string\n---@operator len: integer\n---@field cb fun(a: integer, b?: string): boolean\n---@field [integer] number\nCallable{n} = {{}}\n\n---@enum (key) Keys{n}\nlocal Keys{n} = {{ alpha = 1, beta = 2 }}\n\nlocal MT{n} = {{}}\nMT{n}.__index = MT{n}\nfunction MT{n}.hello()\n    return {n}\nend\nfunction MakeObj{n}()\n    return setmetatable({{ own = 1 }}, MT{n})\nend\nreturn Keys{n}\n"),
            1 => format!("---@class Callable{n}\n---@operator call(string): integer\n---@operator index(string): number\n---@field cb fun(a: string): integer\nCallable{n} = {{}}\n\n---@enum (key) Keys{n}\nlocal Keys{n} = {{ alpha = 1, gamma = 3 }}\n\nlocal MT{n} = {{}}\nMT{n}.__index = MT{n}\nfunction MT{n}.hello()\n    return \"h\"\nend\nfunction MT{n}.bye() end\nfunction MakeObj{n}()\n    return setmetatable({{}}, MT{n})\nend\nreturn Keys{n}\n"),
            _ => format!("---@class Callable{n}\nCallable{n} = {{}}\nfunction MakeObj{n}()\n    return {{}}\nend\n"),
        },
        "call_use" => match v {
            0 => format!("---@type Callable{n}\nlocal c{n} = Callable{n}\nlocal r{n} = c{n}(1)\nlocal ix{n} = c{n}[\"k\"]\nlocal nx{n} = c{n}[1]\nlocal cc{n} = c{n} .. c{n}\nlocal ln{n} = #c{n}\nlocal cb{n} = c{n}.cb(1, \"s\")\n---@type Keys{n}\nlocal k{n} = \"alpha\"\nlocal o{n} = MakeObj{n}()\nlocal h{n} = o{n}.hello()\nlocal own{n} = o{n}.own\nreturn r{n}, ix{n}, nx{n}, cc{n}, ln{n}, cb{n}, k{n}, h{n}, own{n}\n"),
            1 => format!("---@type Keys{n}\nlocal k{n} = \"gamma\"\n---@param f Callable{n}\nlocal function run{n}(f)\n    return f(\"x\"), f.cb(\"y\")\nend\nreturn k{n}, run{n}\n"),
            _ => format!("local o{n} = MakeObj{n}()\nreturn o{n}.bye\n"),
        },
        // ---- flow: narrowing and casts on values whose types come from another file
        "flow_def" => match v {
            0 => format!("---@class Shape{n}\n---@field kind \"circle\"|\"square\"\n---@field r? number\n---@field side? number\n\n---@return Shape{n}|string|nil\nfunction GetShape{n}()\n    return nil\nend\n\n---@param x any\n---@return boolean\n---@return_cast x Shape{n}\nfunction IsShape{n}(x)\n    return type(x) == \"table\"\nend\n"),
            1 => format!("---@class Shape{n}\n---@field kind string\n---@field r number\n\n---@return Shape{n}?\nfunction GetShape{n}()\n    return nil\nend\n\n---@param x any\n---@return boolean\nfunction IsShape{n}(x)\n    return false\nend\n"),
            _ => format!("---@return integer\nfunction GetShape{n}()\n    return 1\nend\n"),
        },
        "flow_use" => match v {
            0 => format!("local s{n} = GetShape{n}()\nif type(s{n}) == \"string\" then\n    local str{n} = s{n}\n    print(str{n})\nelseif s{n} then\n    local sh{n} = s{n}\n    if sh{n}.kind == \"circle\" then\n        local rr{n} = sh{n}.r\n        print(rr{n})\n    end\nelse\n    local nn{n} = s{n}\n    print(nn{n})\nend\nlocal u{n}\nif IsShape{n}(u{n}) then\n    local cast{n} = u{n}\n    print(cast{n})\nend\n---@cast s{n} Shape{n}\nlocal after{n} = s{n}\nreturn after{n}\n"),
            1 => format!("local s{n} = GetShape{n}()\nwhile s{n} do\n    local inner{n} = s{n}\n    s{n} = nil\n    print(inner{n})\nend\nlocal fin{n} = s{n}\nreturn fin{n}\n"),
            _ => format!("local s{n} = GetShape{n}() or \"none\"\nreturn s{n}\n"),
        },
        // ---- text whose syntax tree depends on parser-relevant configuration at one language level
        // (require-like / special functions, non-standard symbols)
        "sp_mod" => match v {
            0 => format!("return {{ value = {n}, name = \"sp{n}\" }}\n"),
            1 => format!("local M = {{}}\nM.value = \"v{n}\"\nreturn M\n"),
            _ => format!("return {n}\n"),
        },
        "sp_use" => match v {
            0 => format!("local m = import(\"sp.mod{n}\")\nlocal v{n} = m.value\nlocal c{n} = 1\nc{n} += 1\n---@type integer?\nlocal maybe{n} = nil\ncheck(maybe{n})\nlocal sure{n} = maybe{n}\nreturn v{n}, c{n}, sure{n}\n"),
            1 => format!("local m = import(\"sp.mod{n}\")\nreturn m.name\n"),
            _ => format!("for i = 1, 3 do\n    if i == 2 then continue end\n    print(i)\nend\n"),
        },
        // ---- a module table (plain table literal) that another file extends through `require`
        "mx_base" => match v {
            0 => format!("local M = {{}}\n\n---base doc\nfunction M.base()\n    return 1\nend\n\nM.count = 0\n\nreturn M\n"),
            1 => format!("local M = {{}}\nfunction M.base()\n    return \"one\"\nend\nfunction M.more() end\nreturn M\n"),
            _ => format!("return {{ base = function() return {n} end }}\n"),
        },
        "mx_ext" => match v {
            0 => format!("local M = require(\"mx.base{n}\")\n\n---extension doc\nfunction M.extra()\n    return \"s\"\nend\n\nM.flag = true\nreturn M\n"),
            1 => format!("local M = require(\"mx.base{n}\")\nfunction M.extra()\n    return 2\nend\nfunction M.base2() return M.base() end\nreturn M\n"),
            _ => format!("local M = require(\"mx.base{n}\")\nreturn M\n"),
        },
        "mx_use" => match v {
            0 => format!("local M = require(\"mx.base{n}\")\nlocal e{n} = M.extra()\nlocal b{n} = M.base()\nlocal f{n} = M.flag\nreturn e{n}, b{n}, f{n}\n"),
            1 => format!("local E = require(\"mx.ext{n}\")\nlocal e{n} = E.extra()\nlocal c{n} = E.count\nreturn e{n}, c{n}\n"),
            _ => format!("return require(\"mx.base{n}\").extra\n"),
        },
        // ---- file-scoped (private) types with the same name in two files
        "priv_a" => match v {
            0 => format!("---helper of a\n---@class (private) Helper{n}\n---@field a integer\n\n---@alias (private) HId{n} integer\n\n---@type Helper{n}\nlocal h{n} = {{ a = 1 }}\n---@type HId{n}\nlocal id{n} = 1\nreturn h{n}.a, id{n}\n"),
            1 => format!("---@class (private) Helper{n}\n---@field a string\n---@field a2 boolean\n\n---@type Helper{n}\nlocal h{n} = {{}}\nreturn h{n}.a2\n"),
            _ => format!("---@class Helper{n}\n---@field pub integer\n"),
        },
        "priv_b" => match v {
            0 => format!("---helper of b\n---@class (private) Helper{n}\n---@field b string\n\n---@alias (private) HId{n} string\n\n---@type Helper{n}\nlocal h{n} = {{ b = \"x\" }}\n---@type HId{n}\nlocal id{n} = \"i\"\nreturn h{n}.b, id{n}\n"),
            1 => format!("---@enum (private) Helper{n}\nlocal Helper{n} = {{ One = 1 }}\nreturn Helper{n}\n"),
            _ => format!("---@type Helper{n}\nlocal h{n} = {{}}\nreturn h{n}\n"),
        },
        // ---- modules whose chunk return is neither a local name, a table literal nor a closure
        "mr_a" => match v {
            0 => format!("local M = {{}}\nlocal mt = {{ __index = M }}\nfunction M.run() return {n} end\nreturn setmetatable(M, mt)\n"),
            1 => format!("local impl = {{ api = {{ run = function() return {n} end, version = \"1.{n}\" }} }}\nreturn impl.api\n"),
            _ => format!("return \"1.{n}.0\"\n"),
        },
        "mr_b" => match v {
            0 => format!("return require(\"mr.a{n}\")\n"),
            1 => format!("return function(x) return x + {n} end\n"),
            _ => format!("return {n}\n"),
        },
        "mr_use" => match v {
            0 => format!("local a{n} = require(\"mr.a{n}\")\nlocal b{n} = require(\"mr.b{n}\")\nlocal r{n} = a{n}.run\nreturn r{n}\n"),
            1 => format!("local b{n} = require(\"mr.b{n}\")\nreturn b{n}\n"),
            _ => format!("local a{n} = require(\"mr.a{n}\")\nreturn a{n}\n"),
        },
        // ---- a table literal annotated as a class (its fields are re-homed from the literal to
        // the type), a typed global extended through `G.x = ...`, and a user
        "tc_def" => match v {
            0 => format!("---shape doc\n---@class Shape{n}\nlocal Shape{n} = {{ sides = 4, name = \"sq\" }}\n\nfunction Shape{n}.area()\n    return Shape{n}.sides\nend\n\n---@enum Mode{n}\nlocal Mode{n} = {{ On = 1, Off = 2 }}\n\nreturn Shape{n}\n"),
            1 => format!("---shape doc\n---@class Shape{n}\nlocal Shape{n} = {{ edges = 4, name = \"sq\" }}\n\nfunction Shape{n}.area()\n    return Shape{n}.edges\nend\n\n---@enum Mode{n}\nlocal Mode{n} = {{ On = 1, Odd = 2 }}\n\nreturn Shape{n}\n"),
            _ => format!("-- moved down\n\n---shape doc\n---@class Shape{n}\nlocal Shape{n} = {{ sides = 4, name = \"sq\" }}\n\n---@enum Mode{n}\nlocal Mode{n} = {{ On = 1, Off = 2 }}\n\nreturn Shape{n}\n"),
        },
        "tc_glob" => match v {
            0 => format!("---@class GShape{n}\n---@field base integer\n\n---@type GShape{n}\nGS{n} = {{}}\nGS{n}.bar = 1\nGS{n}.baz = \"z\"\n"),
            1 => format!("---@class GShape{n}\n---@field base integer\n\n---@type GShape{n}\nGS{n} = {{}}\nGS{n}.bat = 1\nGS{n}.baz = \"z\"\n"),
            _ => format!("\n\n---@class GShape{n}\n---@field base integer\n\n---@type GShape{n}\nGS{n} = {{}}\nGS{n}.bar = 1\n"),
        },
        "tc_use" => match v {
            0 => format!("local S{n} = require(\"tc.def{n}\")\nlocal a{n} = S{n}.sides\nlocal b{n} = GS{n}.bar\n---@type Mode{n}\nlocal m{n} = 1\nreturn a{n}\n"),
            1 => format!("local S{n} = require(\"tc.def{n}\")\nlocal a{n} = S{n}.edges\nlocal b{n} = GS{n}.bat\nreturn a{n}, b{n}\n"),
            _ => format!("---@type Shape{n}\nlocal s{n} = {{}}\nlocal c{n} = s{n}.name\nlocal d{n} = GS{n}.base\nreturn c{n}\n"),
        },
        _ => format!("return {n}\n"),
    }
}

/// A group of files that interact; `n` is the group number.
pub fn group(kind: &str, n: u32) -> Vec<FileSpec> {
    let f = |rel: String, kind: &str| FileSpec { rel, kind: kind.to_string(), n, muts: Vec::new() };
    match kind {
        "class" => vec![f(format!("cls/a{n}.lua"), "class_a"), f(format!("cls/b{n}.lua"), "class_b")],
        "glob" => vec![f(format!("g/def{n}.lua"), "glob_def"), f(format!("g/use{n}.lua"), "glob_use"), f(format!("g/zconflict{n}.lua"), "glob_conflict")],
        "mod" => vec![f(format!("mods/mod{n}.lua"), "mod"), f(format!("app/use{n}.lua"), "mod_use")],
        "cycle" => vec![f(format!("cyc/a{n}.lua"), "cycle_a"), f(format!("cyc/b{n}.lua"), "cycle_b")],
        "types" => vec![f(format!("ty/types{n}.lua"), "types"), f(format!("ty/use{n}.lua"), "types_use")],
        "diag" => vec![f(format!("d/diag{n}.lua"), "diag")],
        "broken" => vec![f(format!("d/broken{n}.lua"), "broken")],
        "meta" => vec![f(format!("meta/m{n}.lua"), "meta"), f(format!("meta/use{n}.lua"), "meta_use")],
        "lib" => vec![f(format!("lib/libmod{n}.lua"), "lib"), f(format!("app/libuse{n}.lua"), "lib_use")],
        "libpart" => vec![f(format!("lib/shared{n}.lua"), "libpart_lib"), f(format!("app/shared{n}.lua"), "libpart_main")],
        "member" => vec![f(format!("mb/a{n}.lua"), "memb_a"), f(format!("mb/b{n}.lua"), "memb_b"), f(format!("mb/use{n}.lua"), "memb_use")],
        "generic" => vec![f(format!("gen/def{n}.lua"), "gen_def"), f(format!("gen/use{n}.lua"), "gen_use")],
        "overload" => vec![f(format!("ovl/def{n}.lua"), "ovl_def"), f(format!("ovl/use{n}.lua"), "ovl_use")],
        "namespace" => vec![f(format!("ns/def{n}.lua"), "ns_def"), f(format!("ns/use{n}.lua"), "ns_use")],
        "callable" => vec![f(format!("call/def{n}.lua"), "call_def"), f(format!("call/use{n}.lua"), "call_use")],
        "flow" => vec![f(format!("flow/def{n}.lua"), "flow_def"), f(format!("flow/use{n}.lua"), "flow_use")],
        "special" => vec![f(format!("sp/mod{n}.lua"), "sp_mod"), f(format!("sp/use{n}.lua"), "sp_use")],
        "modext" => vec![f(format!("mx/base{n}.lua"), "mx_base"), f(format!("mx/ext{n}.lua"), "mx_ext"), f(format!("mx/use{n}.lua"), "mx_use")],
        "private" => vec![f(format!("pv/a{n}.lua"), "priv_a"), f(format!("pv/b{n}.lua"), "priv_b")],
        "modret" => vec![f(format!("mr/a{n}.lua"), "mr_a"), f(format!("mr/b{n}.lua"), "mr_b"), f(format!("mr/use{n}.lua"), "mr_use")],
        "tblclass" => vec![f(format!("tc/def{n}.lua"), "tc_def"), f(format!("tc/glob{n}.lua"), "tc_glob"), f(format!("tc/use{n}.lua"), "tc_use")],
        "inherit" => vec![
            f(format!("inh/bases{n}.lua"), "inh_bases"),
            f(format!("inh/part_a{n}.lua"), "inh_part_a"),
            f(format!("inh/part_b{n}.lua"), "inh_part_b"),
            f(format!("inh/use{n}.lua"), "inh_use"),
        ],
        _ => vec![],
    }
}

pub const GROUP_KINDS: &[&str] = &["class", "glob", "mod", "cycle", "types", "diag", "broken", "meta", "lib", "inherit", "member", "generic", "overload", "namespace", "callable", "flow", "modext", "private", "special", "modret", "tblclass"];

/// Draw a workspace of `lo..=hi` files.
pub fn gen_workspace(r: &mut Rng, lo: usize, hi: usize) -> Vec<FileSpec> {
    let target = r.range(lo as u64, hi as u64) as usize;
    let mut files: Vec<FileSpec> = Vec::new();
    let mut n = 0u32;
    let mut guard = 0;
    while files.len() < target && guard < 40 {
        guard += 1;
        let kind = *r.pick(GROUP_KINDS);
        // reuse a group number sometimes so that two groups collide on names (duplicate classes,
        // the same global defined twice)
        let gn = if n > 0 && r.chance(1, 6) { r.below(n as u64) as u32 } else { n };
        n += 1;
        for f in group(kind, gn) {
            if !files.iter().any(|x| x.rel == f.rel) {
                files.push(f);
            }
        }
    }
    if r.chance(1, 2) {
        r.shuffle(&mut files);
    }
    files
}

#[derive(Serialize, Deserialize, Clone, Debug, PartialEq)]
pub struct Cfg {
    /// 0: default, 1: Lua 5.1, 2: LuaJIT, 3: strict flags flipped, 4: diagnostics disabled subset
    pub variant: u32,
    /// install the configuration as a modified clone of the one in force (see `World::install`)
    #[serde(default, skip_serializing_if = "std::ops::Not::not")]
    pub by_clone: bool,
}

pub fn emmyrc_for(cfg: &Cfg, root: &std::path::Path, with_lib: bool) -> emmylua_code_analysis::Emmyrc {
    let mut v = serde_json::json!({});
    match cfg.variant % 7 {
        1 => v["runtime"] = serde_json::json!({"version": "Lua5.1"}),
        2 => v["runtime"] = serde_json::json!({"version": "LuaJIT"}),
        5 => v["runtime"] = serde_json::json!({"requireLikeFunction": ["import"], "special": {"check": "assert"}}),
        6 => v["runtime"] = serde_json::json!({"nonstandardSymbol": ["+=", "continue"]}),
        3 => v["strict"] = serde_json::json!({"requirePath": true, "arrayIndex": false, "typeCall": true}),
        4 => v["diagnostics"] = serde_json::json!({"disable": ["unused", "undefined-global"]}),
        _ => {}
    }
    if with_lib {
        v["workspace"] = serde_json::json!({"library": [root.join("lib").to_string_lossy()]});
    }
    let mut e: emmylua_code_analysis::Emmyrc = serde_json::from_value(v).unwrap_or_default();
    e.pre_process_emmyrc(root);
    e
}
