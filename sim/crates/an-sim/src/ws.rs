//! Generated workspaces: small sets of Lua files drawn from templates that interact across files
//! (classes split across files with descriptions, globals defined/used/conflicting across files,
//! require chains and cycles, aliases, enums, operators, diagnostic comments, syntax errors, meta
//! files, a library root), each with a few text variants used as edits.

use serde::{Deserialize, Serialize};
use simcore::Rng;

#[derive(Serialize, Deserialize, Clone, Debug, PartialEq)]
pub struct FileSpec {
    pub rel: String,
    pub kind: String,
    /// template parameter (names are derived from it so that groups of files interact)
    pub n: u32,
}

pub const VARIANTS: u32 = 3;

/// Text of a file of `kind` with group number `n` in `variant`.
pub fn file_text(kind: &str, n: u32, variant: u32) -> String {
    let v = variant % VARIANTS;
    match kind {
        // ---- class split over two files, description only in the first
        "class_a" => match v {
            0 => format!("---Doc of Cls{n}\n---@class Cls{n}\n---@field x integer\nlocal Cls{n} = {{}}\n\n---method doc\n---@return integer\nfunction Cls{n}:foo()\n    return self.x\nend\n\nreturn Cls{n}\n"),
            1 => format!("---Doc of Cls{n} (edited)\n---@class Cls{n}\n---@field x string\n---@field z boolean\nlocal Cls{n} = {{}}\n\n---@return string\nfunction Cls{n}:foo()\n    return self.x\nend\n\nfunction Cls{n}:bar()\n    return self.z\nend\n\nreturn Cls{n}\n"),
            _ => format!("---@class Cls{n}\nlocal Cls{n} = {{}}\nreturn Cls{n}\n"),
        },
        "class_b" => match v {
            0 => format!("---@class Cls{n}\n---@field y string\nlocal Part{n} = {{}}\n\nfunction Part{n}:baz()\n    return self.y\nend\n\n---@type Cls{n}\nlocal inst{n} = {{}}\nlocal r{n} = inst{n}.x\nreturn r{n}\n"),
            1 => format!("---@class (partial) Cls{n}\n---@field y number\nlocal Part{n} = {{}}\n---@type Cls{n}\nlocal inst{n} = {{}}\nlocal r{n} = inst{n}.y\nreturn r{n}\n"),
            _ => format!("---@type Cls{n}\nlocal inst{n} = {{}}\nlocal r{n} = inst{n}:foo()\nreturn r{n}\n"),
        },
        // ---- globals
        "glob_def" => match v {
            0 => format!("Glob{n} = 1\n\n---global function doc\n---@param a integer\n---@return integer\nfunction GlobFn{n}(a)\n    return a + Glob{n}\nend\n"),
            1 => format!("Glob{n} = \"text\"\n\n---@param a string\n---@return string\nfunction GlobFn{n}(a)\n    return a .. Glob{n}\nend\n"),
            _ => format!("---@type table<string, integer>\nGlob{n} = {{}}\nGlob{n}.field = 1\n"),
        },
        "glob_use" => match v {
            0 => format!("local v{n} = Glob{n}\nlocal w{n} = GlobFn{n}(v{n})\nreturn w{n}\n"),
            1 => format!("local v{n} = GlobFn{n}\nlocal unused{n} = Glob{n}\nreturn v{n}\n"),
            _ => format!("print(Glob{n}, GlobUndefined{n})\n"),
        },
        "glob_conflict" => match v {
            0 => format!("Glob{n} = \"conflict\"\n"),
            1 => format!("---@type boolean\nGlob{n} = true\n"),
            _ => format!("function GlobFn{n}()\n    return nil\nend\n"),
        },
        // ---- modules and require
        "mod" => match v {
            0 => format!("local M = {{}}\nM.value = {n}\n\n---module fn doc\nfunction M.get()\n    return M.value\nend\n\nreturn M\n"),
            1 => format!("local M = {{}}\nM.value = \"s{n}\"\nM.extra = true\nfunction M.get()\n    return M.value\nend\nreturn M\n"),
            _ => format!("return {{ value = {n}, get = function() return {n} end }}\n"),
        },
        "mod_use" => match v {
            0 => format!("local m = require(\"mods.mod{n}\")\nlocal x{n} = m.get()\nlocal y{n} = m.value\nreturn x{n}, y{n}\n"),
            1 => format!("local m = require(\"mods.mod{n}\")\nlocal e{n} = m.extra\nreturn e{n}\n"),
            _ => format!("local m = require(\"mod{n}\")\nlocal missing = require(\"no.such.module{n}\")\nreturn m, missing\n"),
        },
        "cycle_a" => match v {
            0 => format!("local b = require(\"cyc.b{n}\")\nlocal A = {{}}\nA.name = \"a{n}\"\nfunction A.peer()\n    return b.name\nend\nreturn A\n"),
            1 => format!("local A = {{}}\nA.name = 1\nreturn A\n"),
            _ => format!("local b = require(\"cyc.b{n}\")\nreturn b\n"),
        },
        "cycle_b" => match v {
            0 => format!("local a = require(\"cyc.a{n}\")\nlocal B = {{}}\nB.name = \"b{n}\"\nfunction B.peer()\n    return a.name\nend\nreturn B\n"),
            1 => format!("local B = {{}}\nB.name = true\nreturn B\n"),
            _ => format!("local a = require(\"cyc.a{n}\")\nreturn a\n"),
        },
        // ---- alias / enum
        "types" => match v {
            0 => format!("---@alias Id{n} integer|string\n\n---Color doc\n---@enum Color{n}\nlocal Color{n} = {{\n    Red = 1,\n    Green = 2,\n}}\n\n---@class Vec{n}\n---@field x number\n---@operator add(Vec{n}): Vec{n}\n---@operator unm: Vec{n}\nlocal Vec{n} = {{}}\n\nreturn Color{n}\n"),
            1 => format!("---@alias Id{n} integer\n\n---@enum Color{n}\nlocal Color{n} = {{\n    Red = \"r\",\n    Blue = \"b\",\n}}\n\n---@class Vec{n}\n---@field x number\n---@field y number\n---@operator add(Vec{n}): Vec{n}\nlocal Vec{n} = {{}}\nreturn Color{n}\n"),
            _ => format!("---@alias Id{n} boolean\nreturn nil\n"),
        },
        "types_use" => match v {
            0 => format!("---@type Id{n}\nlocal id{n} = 1\n\n---@type Color{n}\nlocal c{n} = 1\n\n---@type Vec{n}\nlocal a{n} = {{ x = 1 }}\n---@type Vec{n}\nlocal b{n} = {{ x = 2 }}\nlocal s{n} = a{n} + b{n}\nlocal neg{n} = -a{n}\nreturn id{n}, c{n}, s{n}, neg{n}\n"),
            1 => format!("---@param id Id{n}\n---@param c Color{n}\nlocal function f{n}(id, c)\n    return id, c\nend\nreturn f{n}(\"x\", 3)\n"),
            _ => format!("---@type Vec{n}\nlocal a{n} = {{}}\nreturn a{n}.y\n"),
        },
        // ---- diagnostic comments
        "diag" => match v {
            0 => format!("---@diagnostic disable-next-line: undefined-global\nprint(undefinedThing{n})\nprint(otherUndefined{n})\nlocal unusedLocal{n} = 1\n"),
            1 => format!("---@diagnostic disable: undefined-global\nprint(undefinedThing{n})\nprint(otherUndefined{n})\n---@diagnostic enable: undefined-global\nprint(third{n})\n"),
            _ => format!("local a{n} = 1\nlocal a{n} = 2\nreturn a{n}\n"),
        },
        // ---- syntax errors
        "broken" => match v {
            0 => format!("local function broken{n}(\n    return 1\nend\nlocal ok{n} = 1\n"),
            1 => format!("local t{n} = {{ 1, 2,\nfor i = 1 do end\n"),
            _ => format!("local fine{n} = 1\nreturn fine{n}\n"),
        },
        // ---- meta file
        "meta" => match v {
            0 => format!("---@meta metamod{n}\n\n---@class MetaCls{n}\n---@field handle integer\n\n---meta fn doc\n---@param c MetaCls{n}\n---@return integer\nfunction MetaFn{n}(c) end\n"),
            1 => format!("---@meta metamod{n}\n\n---@class MetaCls{n}\n---@field handle string\n\n---@param c MetaCls{n}\n---@return string\nfunction MetaFn{n}(c) end\n"),
            _ => format!("---@meta\n\n---@class MetaCls{n}\n"),
        },
        "meta_use" => match v {
            0 => format!("---@type MetaCls{n}\nlocal mc{n} = {{ handle = 1 }}\nlocal h{n} = MetaFn{n}(mc{n})\nreturn h{n}\n"),
            1 => format!("local h{n} = MetaFn{n}(nil)\nreturn h{n}\n"),
            _ => format!("return MetaFn{n}\n"),
        },
        // ---- library root file
        "lib" => match v {
            0 => format!("---library class doc\n---@class LibCls{n}\n---@field id integer\nlocal LibCls{n} = {{}}\nLibGlob{n} = LibCls{n}\nlocal unusedInLib{n} = undefinedInLib{n}\nreturn LibCls{n}\n"),
            1 => format!("---@class LibCls{n}\n---@field id string\nlocal LibCls{n} = {{}}\nLibGlob{n} = 1\nreturn LibCls{n}\n"),
            _ => format!("return {{}}\n"),
        },
        "lib_use" => match v {
            0 => format!("local L = require(\"libmod{n}\")\n---@type LibCls{n}\nlocal l{n} = L\nlocal i{n} = l{n}.id\nreturn i{n}, LibGlob{n}\n"),
            1 => format!("---@type LibCls{n}\nlocal l{n} = {{}}\nreturn l{n}.id\n"),
            _ => format!("return LibGlob{n}\n"),
        },
        // ---- a partial class that gets a different base class from each of two files; both
        // bases declare the member `v` with different types
        "inh_bases" => match v {
            0 => format!("---@class BaseS{n}\n---@field v string\n\n---@class BaseI{n}\n---@field v integer\n---@field only_i boolean\n"),
            1 => format!("---@class BaseS{n}\n---@field v string\n---@field extra number\n\n---@class BaseI{n}\n---@field v integer\n"),
            _ => format!("---@class BaseS{n}\n---@class BaseI{n}\n"),
        },
        "inh_part_a" => match v {
            0 => format!("---@class (partial) Multi{n}: BaseS{n}\n---@field a integer\nlocal A{n} = {{}}\nreturn A{n}\n"),
            1 => format!("---@class (partial) Multi{n}: BaseS{n}, BaseI{n}\nlocal A{n} = {{}}\nreturn A{n}\n"),
            _ => format!("---@class (partial) Multi{n}\nlocal A{n} = {{}}\nreturn A{n}\n"),
        },
        "inh_part_b" => match v {
            0 => format!("---@class (partial) Multi{n}: BaseI{n}\n---@field b string\nlocal B{n} = {{}}\nreturn B{n}\n"),
            1 => format!("---@class (partial) Multi{n}: BaseI{n}\nlocal B{n} = {{}}\nfunction B{n}:m() return self.v end\nreturn B{n}\n"),
            _ => format!("local B{n} = {{}}\nreturn B{n}\n"),
        },
        "inh_use" => match v {
            0 => format!("---@type Multi{n}\nlocal m{n} = {{}}\n---@type string\nlocal s{n} = m{n}.v\nlocal o{n} = m{n}.only_i\nreturn s{n}, o{n}\n"),
            1 => format!("---@type Multi{n}\nlocal m{n} = {{}}\nlocal w{n} = m{n}.v\nreturn w{n}\n"),
            _ => format!("---@param m Multi{n}\nlocal function f{n}(m)\n    return m.v, m.a, m.b\nend\nreturn f{n}\n"),
        },
        // ---- the same member key of one table / class defined in two different files
        "memb_a" => match v {
            0 => format!("---@class Conf{n}\nConf{n} = {{}}\nConf{n}.level = 1\n\n---@class (partial) Opt{n}\n---@field k integer\n"),
            1 => format!("---@class Conf{n}\nConf{n} = {{}}\nConf{n}.level = true\nfunction Conf{n}.get() return 1 end\n\n---@class (partial) Opt{n}\n---@field k boolean\n"),
            _ => format!("---@class Conf{n}\nConf{n} = {{}}\n"),
        },
        "memb_b" => match v {
            0 => format!("Conf{n}.level = \"high\"\nfunction Conf{n}.get() return \"s\" end\n\n---@class (partial) Opt{n}\n---@field k string\n"),
            1 => format!("Conf{n}.level = 2.5\n\n---@class (partial) Opt{n}\n---@field k number\n---@field only_b integer\n"),
            _ => format!("Conf{n}.other = 1\n"),
        },
        "memb_use" => match v {
            0 => format!("local lv{n} = Conf{n}.level\nlocal g{n} = Conf{n}.get()\n---@type Opt{n}\nlocal o{n} = {{}}\nlocal k{n} = o{n}.k\nreturn lv{n}, g{n}, k{n}\n"),
            1 => format!("---@type Opt{n}\nlocal o{n} = {{}}\n---@type string\nlocal ks{n} = o{n}.k\nreturn ks{n}\n"),
            _ => format!("return Conf{n}.level\n"),
        },
        _ => format!("return {n}\n"),
    }
}

/// A group of files that interact; `n` is the group number.
pub fn group(kind: &str, n: u32) -> Vec<FileSpec> {
    let f = |rel: String, kind: &str| FileSpec { rel, kind: kind.to_string(), n };
    match kind {
        "class" => vec![f(format!("cls/a{n}.lua"), "class_a"), f(format!("cls/b{n}.lua"), "class_b")],
        "glob" => vec![f(format!("g/def{n}.lua"), "glob_def"), f(format!("g/use{n}.lua"), "glob_use"), f(format!("g/zconflict{n}.lua"), "glob_conflict")],
        "mod" => vec![f(format!("mods/mod{n}.lua"), "mod"), f(format!("app/use{n}.lua"), "mod_use")],
        "cycle" => vec![f(format!("cyc/a{n}.lua"), "cycle_a"), f(format!("cyc/b{n}.lua"), "cycle_b")],
        "types" => vec![f(format!("ty/types{n}.lua"), "types"), f(format!("ty/use{n}.lua"), "types_use")],
        "diag" => vec![f(format!("d/diag{n}.lua"), "diag")],
        "broken" => vec![f(format!("d/broken{n}.lua"), "broken")],
        "meta" => vec![f(format!("meta/m{n}.lua"), "meta"), f(format!("meta/use{n}.lua"), "meta_use")],
        "lib" => vec![f(format!("lib/libmod{n}.lua"), "lib"), f(format!("app/libuse{n}.lua"), "lib_use")],
        "member" => vec![f(format!("mb/a{n}.lua"), "memb_a"), f(format!("mb/b{n}.lua"), "memb_b"), f(format!("mb/use{n}.lua"), "memb_use")],
        "inherit" => vec![
            f(format!("inh/bases{n}.lua"), "inh_bases"),
            f(format!("inh/part_a{n}.lua"), "inh_part_a"),
            f(format!("inh/part_b{n}.lua"), "inh_part_b"),
            f(format!("inh/use{n}.lua"), "inh_use"),
        ],
        _ => vec![],
    }
}

pub const GROUP_KINDS: &[&str] = &["class", "glob", "mod", "cycle", "types", "diag", "broken", "meta", "lib", "inherit", "member"];

/// Draw a workspace of `lo..=hi` files.
pub fn gen_workspace(r: &mut Rng, lo: usize, hi: usize) -> Vec<FileSpec> {
    let target = r.range(lo as u64, hi as u64) as usize;
    let mut files: Vec<FileSpec> = Vec::new();
    let mut n = 0u32;
    let mut guard = 0;
    while files.len() < target && guard < 40 {
        guard += 1;
        let kind = *r.pick(GROUP_KINDS);
        // reuse a group number sometimes so that two groups collide on names (duplicate classes,
        // the same global defined twice)
        let gn = if n > 0 && r.chance(1, 6) { r.below(n as u64) as u32 } else { n };
        n += 1;
        for f in group(kind, gn) {
            if !files.iter().any(|x| x.rel == f.rel) {
                files.push(f);
            }
        }
    }
    if r.chance(1, 2) {
        r.shuffle(&mut files);
    }
    files
}

#[derive(Serialize, Deserialize, Clone, Debug, PartialEq)]
pub struct Cfg {
    /// 0: default, 1: Lua 5.1, 2: LuaJIT, 3: strict flags flipped, 4: diagnostics disabled subset
    pub variant: u32,
}

pub fn emmyrc_for(cfg: &Cfg, root: &std::path::Path, with_lib: bool) -> emmylua_code_analysis::Emmyrc {
    let mut v = serde_json::json!({});
    match cfg.variant % 5 {
        1 => v["runtime"] = serde_json::json!({"version": "Lua5.1"}),
        2 => v["runtime"] = serde_json::json!({"version": "LuaJIT"}),
        3 => v["strict"] = serde_json::json!({"requirePath": true, "arrayIndex": false, "typeCall": true}),
        4 => v["diagnostics"] = serde_json::json!({"disable": ["unused", "undefined-global"]}),
        _ => {}
    }
    if with_lib {
        v["workspace"] = serde_json::json!({"library": [root.join("lib").to_string_lossy()]});
    }
    let mut e: emmylua_code_analysis::Emmyrc = serde_json::from_value(v).unwrap_or_default();
    e.pre_process_emmyrc(root);
    e
}
