//! E-AN: seeded operation histories against a real `EmmyLuaAnalysis`, judged against reference
//! analyses (C08, C09, C10).

use std::collections::BTreeMap;
use std::path::PathBuf;
use std::sync::Arc;

use emmylua_code_analysis::{EmmyLuaAnalysis, WorkspaceFolder, file_path_to_uri};
use serde::{Deserialize, Serialize};
use serde_json::{Value, json};
use simcore::Rng;
use simcore::driver::CaseReport;

use crate::observe::{self, ObserveOpts};
use crate::ws::{Cfg, FileSpec, VARIANTS, emmyrc_for, gen_workspace};

#[derive(Serialize, Deserialize, Clone, Debug, PartialEq)]
pub enum Op {
    Update { f: usize, v: u32 },
    Batch { items: Vec<(usize, Option<u32>)> },
    /// how: 0 remove_file_by_uri, 1 update_file_by_uri(None), 2 batch with None
    Remove { f: usize, how: u8 },
    Reindex,
    Config { cfg: Cfg },
    /// configuration change as the language server performs it: `update_config`, then every live
    /// file is set again with its identical text (`reload_workspace_files`)
    ConfigReload { cfg: Cfg },
    Resubmit { f: usize },
    ResubmitBatch { fs: Vec<usize> },
    EditRestore { f: usize, v: u32 },
}

#[derive(Serialize, Deserialize, Clone, Debug)]
pub struct HistSpec {
    pub seed: u64,
    pub files: Vec<FileSpec>,
    pub init: Vec<u32>,
    pub cfg: Cfg,
    pub ops: Vec<Op>,
    pub batch_initial: bool,
}

pub struct World {
    pub analysis: EmmyLuaAnalysis,
    pub root: PathBuf,
    pub files: Vec<FileSpec>,
    /// current variant of each file (None = not in the analysis)
    pub cur: Vec<Option<u32>>,
    pub cfg: Cfg,
    pub with_lib: bool,
    /// bare configuration changes executed as reloads (they changed how text is parsed)
    pub promoted_configs: u64,
}

pub fn root_for(seed: u64) -> PathBuf {
    PathBuf::from(format!("/verif-sim-ws/{seed:016x}"))
}

impl World {
    pub fn empty(seed: u64, files: &[FileSpec], cfg: &Cfg) -> World {
        let root = root_for(seed);
        let with_lib = files.iter().any(|f| f.rel.starts_with("lib/"));
        let mut analysis = EmmyLuaAnalysis::new();
        analysis.update_config(Arc::new(emmyrc_for(cfg, &root, with_lib)));
        analysis.add_main_workspace(root.clone());
        if with_lib {
            analysis.add_library_workspace(&WorkspaceFolder::new(root.join("lib"), true));
        }
        World { analysis, root, files: files.to_vec(), cur: vec![None; files.len()], cfg: cfg.clone(), with_lib, promoted_configs: 0 }
    }

    /// Install configuration `cfg`: deserialized afresh, or (`by_clone`) as a clone of the
    /// configuration in force with the sections the variants touch copied over.
    pub fn install(&mut self, cfg: &Cfg) {
        let target = emmyrc_for(cfg, &self.root, self.with_lib);
        let rc = if cfg.by_clone {
            let mut e = (*self.analysis.get_emmyrc()).clone();
            e.runtime = target.runtime.clone();
            e.strict = target.strict.clone();
            e.diagnostics = target.diagnostics.clone();
            e
        } else {
            target
        };
        self.analysis.update_config(Arc::new(rc));
    }

    pub fn uri(&self, f: usize) -> lsp_types::Uri {
        file_path_to_uri(&self.root.join(&self.files[f].rel)).expect("uri")
    }

    pub fn text(&self, f: usize, v: u32) -> String {
        crate::ws::text_of(&self.files[f], v)
    }

    pub fn load(&mut self, items: &[(usize, u32)], batch: bool) {
        if batch {
            let list: Vec<_> = items.iter().map(|(f, v)| (self.uri(*f), Some(self.text(*f, *v)))).collect();
            self.analysis.update_files_by_uri(list);
        } else {
            for (f, v) in items {
                let (u, t) = (self.uri(*f), self.text(*f, *v));
                self.analysis.update_file_by_uri(&u, Some(t));
            }
        }
        for (f, v) in items {
            self.cur[*f] = Some(*v);
        }
    }

    pub fn apply(&mut self, op: &Op) {
        match op {
            Op::Update { f, v } => {
                if *f < self.files.len() {
                    self.load(&[(*f, *v)], false);
                }
            }
            Op::Batch { items } => {
                let list: Vec<_> = items
                    .iter()
                    .filter(|(f, _)| *f < self.files.len())
                    .map(|(f, v)| (self.uri(*f), v.map(|v| self.text(*f, v))))
                    .collect();
                self.analysis.update_files_by_uri(list);
                for (f, v) in items {
                    if *f < self.files.len() {
                        self.cur[*f] = *v;
                    }
                }
            }
            Op::Remove { f, how } => {
                if *f >= self.files.len() || self.cur[*f].is_none() {
                    return;
                }
                let u = self.uri(*f);
                match how % 3 {
                    0 => {
                        self.analysis.remove_file_by_uri(&u);
                    }
                    1 => {
                        self.analysis.update_file_by_uri(&u, None);
                    }
                    _ => {
                        self.analysis.update_files_by_uri(vec![(u, None)]);
                    }
                }
                self.cur[*f] = None;
            }
            Op::Reindex => self.analysis.reindex(),
            Op::Config { cfg } => {
                // `update_config` alone never re-parses (on any tree; the server always re-sends the
                // files after a configuration change), so a bare configuration change that alters
                // how text is parsed - including one that silently *reverts* such a setting - is
                // executed as the reload the server would do. Comparing stored trees parsed under
                // the old parser configuration with a fresh analysis under the new one would
                // demand more than any caller of the API relies on.
                let reparse = parse_class(cfg) != parse_class(&self.cfg);
                self.cfg = cfg.clone();
                self.install(cfg);
                if reparse {
                    self.promoted_configs += 1;
                    let items: Vec<(usize, u32)> = self.cur.iter().enumerate().filter_map(|(f, v)| v.map(|v| (f, v))).collect();
                    self.load(&items, true);
                }
            }
            Op::ConfigReload { cfg } => {
                self.cfg = cfg.clone();
                self.install(cfg);
                let items: Vec<(usize, u32)> = self.cur.iter().enumerate().filter_map(|(f, v)| v.map(|v| (f, v))).collect();
                self.load(&items, true);
            }
            Op::Resubmit { f } => {
                if let Some(Some(v)) = self.cur.get(*f).copied() {
                    self.load(&[(*f, v)], false);
                }
            }
            Op::ResubmitBatch { fs } => {
                let items: Vec<(usize, u32)> = fs.iter().filter_map(|f| self.cur.get(*f).copied().flatten().map(|v| (*f, v))).collect();
                self.load(&items, true);
            }
            Op::EditRestore { f, v } => {
                if let Some(Some(old)) = self.cur.get(*f).copied() {
                    let other = if *v == old { (old + 1) % VARIANTS } else { *v };
                    self.load(&[(*f, other)], false);
                    self.load(&[(*f, old)], false);
                }
            }
        }
    }

    /// Live files in ascending file-id order (the order `reindex` analyses them in).
    pub fn live_in_id_order(&self) -> Vec<(usize, u32)> {
        let db = self.analysis.compilation.get_db();
        let mut v: Vec<(u32, usize, u32)> = Vec::new();
        for (f, cur) in self.cur.iter().enumerate() {
            if let Some(var) = cur {
                if let Some(id) = self.analysis.get_file_id(&self.uri(f)) {
                    if db.get_vfs().get_file_content(&id).is_some() {
                        v.push((id.id, f, *var));
                    }
                }
            }
        }
        v.sort();
        v.into_iter().map(|(_, f, var)| (f, var)).collect()
    }

    pub fn requires(&self) -> Vec<String> {
        let mut r = Vec::new();
        for f in &self.files {
            match f.kind.as_str() {
                "mod" => {
                    r.push(format!("mods.mod{}", f.n));
                    r.push(format!("mod{}", f.n));
                }
                "cycle_a" => r.push(format!("cyc.a{}", f.n)),
                "cycle_b" => r.push(format!("cyc.b{}", f.n)),
                "lib" => r.push(format!("libmod{}", f.n)),
                _ => {}
            }
        }
        r.push("no.such.module".into());
        r.sort();
        r.dedup();
        r
    }

    pub fn observe(&self) -> observe::Obs {
        observe::observe(&self.analysis, &self.root, &ObserveOpts { requires: self.requires(), ..Default::default() })
    }
}

/// The part of a configuration variant that changes how text is parsed (language level,
/// require-like / special functions, non-standard symbols); 0 = parser defaults.
fn parse_class(cfg: &Cfg) -> u32 {
    match cfg.variant % 7 {
        v @ (1 | 2 | 5 | 6) => v,
        _ => 0,
    }
}

fn gen_cfg(r: &mut Rng) -> Cfg {
    Cfg { variant: *r.pick(&[0, 0, 0, 1, 2, 3, 4]), by_clone: false }
}

/// Configuration for a mid-history change. Variants that change how text is *parsed* (language
/// level, require-like / special functions, non-standard symbols) only take effect on files that
/// are set again - `update_config` alone does not re-parse, the server always reloads - so they are
/// only drawn together with the reload.
fn gen_cfg_change(r: &mut Rng) -> Op {
    let v = *r.pick(&[0u32, 0, 1, 2, 3, 4, 5, 6, 5, 6]);
    let parse_relevant = matches!(v % 7, 1 | 2 | 5 | 6);
    if parse_relevant || r.chance(1, 2) {
        Op::ConfigReload { cfg: Cfg { variant: v, by_clone: r.chance(1, 3) } }
    } else {
        Op::Config { cfg: Cfg { variant: v, by_clone: r.chance(1, 3) } }
    }
}

pub fn generate(prop: &str, seed: u64) -> HistSpec {
    let mut r = Rng::stream(seed, "workload");
    let mut files = gen_workspace(&mut r, 2, 7);
    // a third of the workspaces leave the beaten track of the templates
    {
        let mut mr = Rng::stream(seed, "mutations");
        if mr.chance(1, 3) {
            crate::ws::mutate_workspace(&mut mr, &mut files);
        }
    }
    let init: Vec<u32> = files.iter().map(|_| *r.pick(&[0, 0, 0, 1, 2])).collect();
    let cfg = gen_cfg(&mut r);
    let nf = files.len();
    let mut ops = Vec::new();
    match prop {
        "C08" => {
            let n = r.range(1, 12);
            for _ in 0..n {
                ops.push(match r.below(4) {
                    0 | 1 => Op::Resubmit { f: r.usize_below(nf) },
                    2 => {
                        let mut fs: Vec<usize> = (0..nf).filter(|_| r.chance(2, 3)).collect();
                        if fs.is_empty() {
                            fs.push(0);
                        }
                        r.shuffle(&mut fs);
                        Op::ResubmitBatch { fs }
                    }
                    _ => Op::EditRestore { f: r.usize_below(nf), v: r.below(VARIANTS as u64) as u32 },
                });
            }
        }
        "C10" => {
            let n = r.range(0, 6);
            for _ in 0..n {
                ops.push(match r.below(3) {
                    0 => Op::Update { f: r.usize_below(nf), v: r.below(VARIANTS as u64) as u32 },
                    1 => Op::Resubmit { f: r.usize_below(nf) },
                    _ => {
                        let mut items = Vec::new();
                        for f in 0..nf {
                            if r.chance(1, 3) {
                                items.push((f, Some(r.below(VARIANTS as u64) as u32)));
                            }
                        }
                        Op::Batch { items }
                    }
                });
            }
            let mut order: Vec<usize> = (0..nf).collect();
            r.shuffle(&mut order);
            let k = r.range(1, nf as u64) as usize;
            for f in order.into_iter().take(k) {
                ops.push(Op::Remove { f, how: r.below(3) as u8 });
            }
        }
        _ => {
            // C09: arbitrary history
            let n = r.range(3, 24);
            for _ in 0..n {
                ops.push(match r.weighted(&[30, 15, 15, 6, 8, 8, 6, 6]) {
                    0 => Op::Update { f: r.usize_below(nf), v: r.below(VARIANTS as u64) as u32 },
                    1 => {
                        let mut items = Vec::new();
                        for f in 0..nf {
                            if r.chance(1, 2) {
                                items.push((f, if r.chance(1, 5) { None } else { Some(r.below(VARIANTS as u64) as u32) }));
                            }
                        }
                        Op::Batch { items }
                    }
                    2 => Op::Remove { f: r.usize_below(nf), how: r.below(3) as u8 },
                    3 => Op::Reindex,
                    4 => gen_cfg_change(&mut r),
                    5 => Op::Resubmit { f: r.usize_below(nf) },
                    6 => Op::EditRestore { f: r.usize_below(nf), v: r.below(VARIANTS as u64) as u32 },
                    _ => Op::ResubmitBatch { fs: (0..nf).filter(|_| r.chance(1, 2)).collect() },
                });
            }
        }
    }
    HistSpec { seed, files, init, cfg, ops, batch_initial: r.chance(2, 3) }
}

fn initial_items(spec: &HistSpec) -> Vec<(usize, u32)> {
    spec.init.iter().enumerate().map(|(f, v)| (f, *v)).collect()
}

/// A brand-new analysis of `items` (in that order), with `cfg`; optionally followed by a reindex.
fn fresh(spec: &HistSpec, cfg: &Cfg, items: &[(usize, u32)], reindex: bool) -> World {
    let mut w = World::empty(spec.seed, &spec.files, cfg);
    w.load(items, true);
    if reindex {
        w.analysis.reindex();
    }
    w
}

pub struct Judged {
    pub classes: Vec<(String, String)>,
    pub digest: String,
    pub counters: BTreeMap<String, u64>,
    pub lines: usize,
}

/// Violation classes from an observation diff: `<prop>:<what>:<category>[-<field>]:<trigger>`.
/// The trigger names the structural precondition visible in the observation (an entity declared
/// in several files, a require cycle, ...), which keeps classes narrow enough that a different
/// way of breaking the same property is reported separately.
fn class_of_diff(prop: &str, what: &str, d: &BTreeMap<String, (Vec<String>, Vec<String>)>, ctx: &[String], edited_text: Option<&str>) -> Vec<(String, String)> {
    let key_of = |l: &str| l.split(" :: ").next().unwrap_or("").to_string();
    let field = |l: &str, name: &str| -> String {
        l.split(&format!("{name}=")).nth(1).map(|r| r.split(" decl=").next().unwrap_or(r).to_string()).unwrap_or_default()
    };
    // names declared in more than one file
    let mut global_files: BTreeMap<String, std::collections::BTreeSet<String>> = BTreeMap::new();
    let mut multi_file_types: std::collections::BTreeSet<String> = Default::default();
    for l in ctx {
        if let Some(rest) = l.strip_prefix("global ") {
            if let Some((name, loc)) = rest.split(" :: ").next().unwrap_or("").split_once('@') {
                global_files.entry(name.to_string()).or_default().insert(loc.split(':').next().unwrap_or("").to_string());
            }
        } else if let Some(rest) = l.strip_prefix("typedecl ") {
            if let Some((name, v)) = rest.split_once(" :: ") {
                if v.matches(".lua:").count() >= 2 {
                    multi_file_types.insert(name.to_string());
                }
            }
        }
    }
    // member keys of one owner that are defined in more than one file
    let mut member_files: BTreeMap<String, std::collections::BTreeSet<String>> = BTreeMap::new();
    for l in ctx {
        if let Some(rest) = l.strip_prefix("member ") {
            if let Some((owner_key, v)) = rest.split_once(" :: ") {
                if let Some(at) = v.rsplit(" at ").next() {
                    member_files.entry(owner_key.to_string()).or_default().insert(at.split(':').next().unwrap_or("").to_string());
                }
            }
        }
    }
    let multi_member_keys: std::collections::BTreeSet<String> = member_files
        .iter()
        .filter(|(_, f)| f.len() >= 2)
        .filter_map(|(k, _)| k.rsplit('.').next().map(|s| s.to_string()))
        .collect();
    let trigger_of = |line: &str, cat: &str| -> String {
        let key = key_of(line);
        let words: Vec<&str> = key.split(' ').collect();
        let name = match cat {
            "tok" | "doctok" | "hoverdoc" => words.get(2).copied().unwrap_or(""),
            _ => words.get(1).copied().unwrap_or(""),
        };
        let file = words.get(1).copied().unwrap_or("").split('@').next().unwrap_or("");
        if multi_member_keys.contains(name) {
            "multi-file-member".into()
        } else if global_files.get(name).map(|s| s.len() >= 2).unwrap_or(false) {
            "multi-file-global".into()
        } else if multi_file_types.contains(name) || multi_file_types.iter().any(|t| line.contains(t.as_str())) {
            "multi-file-type".into()
        } else if file.starts_with("cyc/") || line.contains("cyc/") {
            "require-cycle".into()
        } else if global_files.iter().any(|(g, s)| s.len() >= 2 && line.contains(g.as_str())) {
            "mentions-multi-file-global".into()
        } else if global_files.iter().any(|(g, s)| {
            // the file of the differing line uses a global that several files declare
            s.len() >= 2 && ctx.iter().any(|c| c.starts_with(&format!("tok {file}@")) && c.split(' ').nth(2) == Some(g.as_str()))
        }) {
            "uses-multi-file-global".into()
        } else if multi_member_keys.iter().any(|k| ctx.iter().any(|c| c.starts_with(&format!("tok {file}@")) && c.split(' ').nth(2) == Some(k.as_str()))) {
            "uses-multi-file-member".into()
        } else if matches!(cat, "typedesc" | "hoverdoc")
            && edited_text.map(|t| t.contains(&format!("@class {name}")) || t.contains(&format!("@class (partial) {name}"))).unwrap_or(false)
        {
            // an edit (since undone) made another file declare the same type for a moment
            "transient-redeclaration".into()
        } else {
            "other".into()
        }
    };
    let mut out = Vec::new();
    for (cat, (a, b)) in d {
        let sample = a.first().or(b.first()).cloned().unwrap_or_default();
        let mut sub = cat.clone();
        if cat == "tok" || cat == "doctok" {
            // which part differs on a line present on both sides
            if let Some(la) = a.first() {
                if let Some(lb) = b.iter().find(|x| key_of(x) == key_of(la)) {
                    let (ta, tb) = (field(la, "type"), field(lb, "type"));
                    sub = if ta != tb { format!("{cat}-type") } else { format!("{cat}-decl") };
                }
            }
        }
        if cat == "module" {
            sub = "module-export".into();
        }
        let trig = trigger_of(&sample, cat);
        out.push((
            format!("{prop}:{what}:{sub}:{trig}"),
            format!("only in subject: {:?}; only in reference: {:?}", a, b).chars().take(900).collect(),
        ));
    }
    out
}

pub fn class_of_diff_pub(prop: &str, what: &str, d: &BTreeMap<String, (Vec<String>, Vec<String>)>, ctx: &[String]) -> Vec<(String, String)> {
    class_of_diff(prop, what, d, ctx, None)
}

fn digest_lines(lines: &[String]) -> String {
    let mut d = simcore::Digest::new();
    for l in lines {
        d.str(l);
    }
    d.hex()
}

/// Execute the history of `spec` for `prop` under the current thread's hash seed.
pub fn judge_once(prop: &str, spec: &HistSpec) -> Judged {
    let mut counters: BTreeMap<String, u64> = BTreeMap::new();
    let mut classes: Vec<(String, String)> = Vec::new();
    let mut c = |k: &str| *counters.entry(k.to_string()).or_insert(0) += 1;
    let mut w = World::empty(spec.seed, &spec.files, &spec.cfg);
    w.load(&initial_items(spec), spec.batch_initial);
    let digest;
    let lines;
    match prop {
        "C08" => {
            w.analysis.reindex();
            let o0 = w.observe();
            let s0 = observe::sizes(&w.analysis);
            let mut d = simcore::Digest::new();
            d.str(&digest_lines(&o0.lines));
            for (i, op) in spec.ops.iter().enumerate() {
                let edited: Option<String> = match op {
                    Op::EditRestore { f, v } => w.cur.get(*f).copied().flatten().map(|old| {
                        let other = if *v == old { (old + 1) % VARIANTS } else { *v };
                        w.text(*f, other)
                    }),
                    _ => None,
                };
                w.apply(op);
                c(match op {
                    Op::Resubmit { .. } => "op.resubmit",
                    Op::ResubmitBatch { .. } => "op.resubmit_batch",
                    Op::EditRestore { .. } => "op.edit_restore",
                    _ => "op.other",
                });
                let o = w.observe();
                d.str(&digest_lines(&o.lines));
                let df = observe::diff(&o.lines, &o0.lines);
                if !df.is_empty() {
                    let mutated = spec.files.iter().any(|f| !f.muts.is_empty());
                    let mut found = class_of_diff("C08", "changed", &df, &o0.lines, edited.as_deref());
                    if mutated {
                        // Mutated workspaces produce endless variants of one recorded limitation:
                        // files that depend on a re-submitted file are not re-analysed, so facts
                        // they derived from it (a class bound to a required table, a local typed
                        // from another file's global) go stale until they are analysed again.
                        // Mechanical test: re-submit every live file once more, unchanged, in one
                        // batch (which analyses them in dependency order). If that alone restores the consistent observation, the difference
                        // was such a stale dependent (one umbrella class); if it does not, indexed
                        // state is corrupted for good and the specific classes are reported.
                        let live: Vec<(usize, u32)> = w.cur.iter().enumerate().filter_map(|(f, v)| v.map(|v| (f, v))).collect();
                        w.load(&live, true);
                        let o2 = w.observe();
                        if observe::diff(&o2.lines, &o0.lines).is_empty() {
                            c("probe.mutated_workspace_stale_dependents");
                            let cats: Vec<String> = found.iter().map(|(cl, _)| cl.split(':').nth(2).unwrap_or("").to_string()).collect();
                            let det = found.first().map(|x| x.1.clone()).unwrap_or_default();
                            found.clear();
                            found.push(("C08:changed:stale-dependents:mutated-workspace".to_string(), format!("categories {cats:?}; restored by re-submitting every file once; {det}")));
                        }
                    }
                    for (cl, det) in found {
                        classes.push((cl, format!("after step {i} ({op:?}): {det}")));
                    }
                }
                let s = observe::sizes(&w.analysis);
                let grew: Vec<(&String, usize, usize)> = s.iter().filter(|(k, v)| **v > s0.get(*k).copied().unwrap_or(0) && *k != "vfs.file_data.slots").map(|(k, v)| (k, s0.get(k).copied().unwrap_or(0), *v)).collect();
                if !grew.is_empty() && spec.files.iter().any(|f| !f.muts.is_empty()) {
                    // Mutated workspaces: the same files analysed in another order may settle in a
                    // state that holds one entry more than the reindexed one (an owner list that a
                    // dependent re-creates) without ever growing again. Growth is reported there
                    // only if it continues when the very same step is repeated (a leak per cycle);
                    // template workspaces keep the strict rule.
                    w.apply(op);
                    w.apply(op);
                    let s3 = observe::sizes(&w.analysis);
                    for (k, base, v1) in &grew {
                        let v3 = s3.get(*k).copied().unwrap_or(0);
                        if v3 > *v1 {
                            classes.push((format!("C08:grew:{k}"), format!("after step {i} ({op:?}): {base} -> {v1}, and {v3} after the same step twice more")));
                        } else {
                            c("probe.mutated_workspace_one_off_state_difference");
                        }
                    }
                } else {
                    for (k, base, v) in &grew {
                        classes.push((format!("C08:grew:{k}"), format!("after step {i} ({op:?}): {base} -> {v}")));
                    }
                }
                if std::env::var("VERIF_C08_TRACE").is_ok() {
                    eprintln!("step {i} {op:?}: sizes {:?}", s.iter().filter(|(k, _)| k.starts_with("member.")).collect::<Vec<_>>());
                    continue;
                }
                if !classes.is_empty() {
                    break;
                }
            }
            lines = o0.lines.len();
            digest = d.hex();
        }
        "C10" => {
            for op in &spec.ops {
                w.apply(op);
                if matches!(op, Op::Remove { .. }) {
                    c("op.remove");
                }
            }
            // (a) nothing refers to a removed file
            let o = w.observe();
            for dgl in &o.dangling {
                let kind = dgl.split(' ').next().unwrap_or("?");
                classes.push((format!("C10:dangling:{kind}"), dgl.clone()));
            }
            // (c) after a reindex the survivors look like a fresh analysis of the survivors
            let survivors = w.live_in_id_order();
            w.analysis.reindex();
            let o2 = w.observe();
            let reference = fresh(spec, &w.cfg, &survivors, true);
            let df = observe::diff(&o2.lines, &reference.observe().lines);
            classes.extend(class_of_diff("C10", "trace-after-reindex", &df, &o2.lines, None));
            // (b) removing everything returns every container to the empty-workspace baseline
            let live: Vec<usize> = (0..w.files.len()).filter(|f| w.cur[*f].is_some()).collect();
            for (i, f) in live.iter().enumerate() {
                w.apply(&Op::Remove { f: *f, how: (i % 3) as u8 });
            }
            let empty = World::empty(spec.seed, &spec.files, &w.cfg);
            let base = observe::sizes(&empty.analysis);
            let s = observe::sizes(&w.analysis);
            for (k, v) in &s {
                let b = base.get(k).copied().unwrap_or(0);
                // file_data slots never shrink by design; update(None) keeps the path<->id maps
                if *v > b && !matches!(k.as_str(), "vfs.file_data.slots" | "vfs.file_id_map" | "vfs.file_path_map") {
                    classes.push((format!("C10:leak:{k}"), format!("all files removed: {v} entries left (empty workspace has {b})")));
                }
            }
            // add+remove cycles do not accumulate state
            let items = initial_items(spec);
            let mut after_cycles = Vec::new();
            for cycles in [1usize, 4] {
                let mut wc = World::empty(spec.seed, &spec.files, &spec.cfg);
                for _ in 0..cycles {
                    wc.load(&items, true);
                    for f in 0..wc.files.len() {
                        wc.apply(&Op::Remove { f, how: 0 });
                    }
                }
                after_cycles.push(observe::sizes(&wc.analysis));
            }
            for (k, v1) in &after_cycles[0] {
                let v4 = after_cycles[1].get(k).copied().unwrap_or(0);
                if v4 > *v1 && k != "vfs.file_data.slots" {
                    classes.push((format!("C10:growth-per-cycle:{k}"), format!("{v1} entries after 1 add+remove cycle, {v4} after 4")));
                }
            }
            lines = o.lines.len() + o2.lines.len();
            digest = digest_lines(&[digest_lines(&o.lines), digest_lines(&o2.lines)]);
        }
        _ => {
            // C09
            for op in &spec.ops {
                w.apply(op);
            }
            let survivors = w.live_in_id_order();
            w.analysis.reindex();
            let o = w.observe();
            let ref_b = fresh(spec, &w.cfg, &survivors, true);
            let ob = ref_b.observe();
            let df = observe::diff(&o.lines, &ob.lines);
            classes.extend(class_of_diff("C09", "stale-after-reindex", &df, &o.lines, None));
            // A batch load analyses files in the iteration order of a hash set (C11's subject), the
            // quantifier fixes "the same file-id order": the reindexed reference above is that
            // order. The unordered load is compared for evidence only.
            if df.is_empty() {
                let ref_a = fresh(spec, &w.cfg, &survivors, false);
                if !observe::diff(&o.lines, &ref_a.observe().lines).is_empty() {
                    c("evidence.unordered_fresh_batch_load_differs_from_id_order");
                }
            }
            if survivors.len() < spec.files.len() {
                c("probe.history_removed_files");
            }
            if spec.ops.iter().any(|o| matches!(o, Op::Config { .. } | Op::ConfigReload { .. })) {
                c("probe.history_changed_config");
            }
            lines = o.lines.len();
            digest = digest_lines(&o.lines);
        }
    }
    // dedup classes
    let mut seen = std::collections::BTreeSet::new();
    classes.retain(|x| seen.insert(x.0.clone()));
    Judged { classes, digest, counters, lines }
}

/// Is the fresh analysis of the initial workspace itself independent of the hash seed? (C11's
/// subject; such cases are excluded from C08/C09/C10 judgement, as their quantifiers say.)
fn fresh_is_seed_independent(spec: &HistSpec) -> bool {
    let mut seen: Option<String> = None;
    for k in 0..3u64 {
        let s = spec.clone();
        let hs = simcore::rng::derive(spec.seed, &format!("precheck{k}"));
        let d = simcore::on_fresh_thread(hs, 64, move || {
            let mut w = World::empty(s.seed, &s.files, &s.cfg);
            w.load(&initial_items(&s), true);
            w.analysis.reindex();
            digest_lines(&w.observe().lines)
        });
        match (d, &seen) {
            (Ok(d), None) => seen = Some(d),
            (Ok(d), Some(p)) if &d == p => {}
            _ => return false,
        }
    }
    true
}

pub fn run(prop: &str, spec_v: &Value, verbose: bool) -> CaseReport {
    let spec: HistSpec = match serde_json::from_value(spec_v.clone()) {
        Ok(s) => s,
        Err(e) => return CaseReport { error: Some(format!("bad spec: {e}")), ..Default::default() },
    };
    let primary_hs = simcore::rng::derive(spec.seed, "hash");
    let (p, s) = (prop.to_string(), spec.clone());
    let first = match simcore::on_fresh_thread(primary_hs, 64, move || {
        let j = judge_once(&p, &s);
        (j.classes, j.digest, j.counters, j.lines)
    }) {
        Ok(x) => x,
        Err(e) => {
            return CaseReport {
                violations: vec![(format!("{prop}:query-or-update-panicked"), e.chars().take(300).collect())],
                digest: "panic".into(),
                nontrivial: true,
                ..Default::default()
            };
        }
    };
    let (mut classes, digest, mut counters, lines) = first;
    if !classes.is_empty() {
        // hash-order nondeterminism must not leak into this property's verdict
        if !fresh_is_seed_independent(&spec) {
            counters.insert("excluded.fresh_analysis_depends_on_hash_seed".into(), 1);
            classes.clear();
        } else {
            for k in 0..3u64 {
                let hs = simcore::rng::derive(spec.seed, &format!("recheck{k}"));
                let (p, s) = (prop.to_string(), spec.clone());
                let again = simcore::on_fresh_thread(hs, 64, move || judge_once(&p, &s).classes);
                let same = match &again {
                    Ok(c2) => {
                        let a: Vec<&String> = classes.iter().map(|x| &x.0).collect();
                        let b: Vec<&String> = c2.iter().map(|x| &x.0).collect();
                        a == b
                    }
                    Err(_) => false,
                };
                if !same {
                    counters.insert("reclassified.outcome_depends_on_hash_seed".into(), 1);
                    classes.clear();
                    break;
                }
            }
        }
    }
    if verbose {
        println!("spec: {}", serde_json::to_string_pretty(&spec).unwrap_or_default());
        for (i, f) in spec.files.iter().enumerate() {
            println!("--- file {i} {} (variant {})\n{}", f.rel, spec.init[i], crate::ws::text_of(f, spec.init[i]));
        }
    }
    CaseReport {
        violations: classes,
        digest: digest.clone(),
        nontrivial: !spec.ops.is_empty() && spec.files.len() >= 2,
        final_state: digest,
        counters,
        sample: json!({
            "files": spec.files.iter().map(|f| f.rel.clone()).collect::<Vec<_>>(),
            "initial_variants": spec.init,
            "config_variant": spec.cfg.variant,
            "ops": spec.ops,
            "observation_lines": lines,
        }),
        error: None,
    }
}

/// Smaller variants of a history spec.
pub fn shrink(spec_v: &Value) -> Vec<Value> {
    let Ok(spec) = serde_json::from_value::<HistSpec>(spec_v.clone()) else { return vec![] };
    let mut out = Vec::new();
    // drop halves / single ops
    let n = spec.ops.len();
    if n > 1 {
        let mut s = spec.clone();
        s.ops = spec.ops[..n / 2].to_vec();
        out.push(s);
        let mut s = spec.clone();
        s.ops = spec.ops[n / 2..].to_vec();
        out.push(s);
    }
    for i in 0..n {
        let mut s = spec.clone();
        s.ops.remove(i);
        out.push(s);
    }
    // drop a file (re-index the ops)
    if spec.files.len() > 1 {
        for f in 0..spec.files.len() {
            let mut s = spec.clone();
            s.files.remove(f);
            s.init.remove(f);
            let fix = |x: usize| -> Option<usize> {
                if x == f {
                    None
                } else if x > f {
                    Some(x - 1)
                } else {
                    Some(x)
                }
            };
            let mut ops = Vec::new();
            for op in &spec.ops {
                let o = match op {
                    Op::Update { f: x, v } => fix(*x).map(|x| Op::Update { f: x, v: *v }),
                    Op::Remove { f: x, how } => fix(*x).map(|x| Op::Remove { f: x, how: *how }),
                    Op::Resubmit { f: x } => fix(*x).map(|x| Op::Resubmit { f: x }),
                    Op::EditRestore { f: x, v } => fix(*x).map(|x| Op::EditRestore { f: x, v: *v }),
                    Op::Batch { items } => Some(Op::Batch { items: items.iter().filter_map(|(x, v)| fix(*x).map(|x| (x, *v))).collect() }),
                    Op::ResubmitBatch { fs } => Some(Op::ResubmitBatch { fs: fs.iter().filter_map(|x| fix(*x)).collect() }),
                    other => Some(other.clone()),
                };
                if let Some(o) = o {
                    ops.push(o);
                }
            }
            s.ops = ops;
            out.push(s);
        }
    }
    if spec.cfg.variant != 0 {
        let mut s = spec.clone();
        s.cfg = Cfg { variant: 0, by_clone: false };
        out.push(s);
    }
    out.into_iter().filter_map(|s| serde_json::to_value(s).ok()).collect()
}
