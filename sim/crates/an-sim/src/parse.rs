//! C04: parsing through the shared node cache of a Vfs, after any sequence of other parses,
//! gives the same tree and error list as a fresh standalone parse with the same configuration.

use std::collections::BTreeMap;
use std::sync::Arc;

use emmylua_code_analysis::{EmmyLuaAnalysis, Emmyrc, file_path_to_uri};
use emmylua_parser::LuaParser;
use serde::{Deserialize, Serialize};
use serde_json::{Value, json};
use simcore::Rng;
use simcore::driver::CaseReport;

#[derive(Serialize, Deserialize, Clone, Debug, PartialEq)]
pub enum POp {
    Set { f: usize, text: String },
    Remove { f: usize },
    /// `by_clone`: the new configuration is a clone of the one in force with the runtime section
    /// of variant `v` copied over (how API users and the test helpers change a setting), instead
    /// of a configuration deserialized afresh (how the server does after reading the files)
    Config {
        v: u32,
        #[serde(default)]
        by_clone: bool,
    },
    /// set the identical text again (what didOpen / didSave of an unchanged file does)
    Resubmit { f: usize },
    /// set every live file again with its identical text (what a workspace reload does after a
    /// configuration change)
    ReloadAll,
}

#[derive(Serialize, Deserialize, Clone, Debug)]
pub struct ParseSpec {
    pub seed: u64,
    pub nfiles: usize,
    pub ops: Vec<POp>,
}

/// Lines chosen to maximise green-node sharing: near-duplicates, the same token text in
/// different syntactic roles, text whose token kinds depend on the language level, doc comments
/// and code with equal text, empty lines.
const LINES: &[&str] = &[
    "local a = 1",
    "local a = 1 ",
    "local a = 1 -- a",
    "local a <const> = 1",
    "local a, b = 1, 2",
    "a = a // 2",
    "a = a / 2",
    "goto continue",
    "::continue::",
    "continue",
    "local continue = 1",
    "local goto = 2",
    "for i = 1, 10 do a = a + i end",
    "for i = 1, 10 do continue end",
    "function f(a, b) return a + b end",
    "function f(a, b) return a - b end",
    "local function f(...) return ... end",
    "---@class A",
    "---@class A : B",
    "---@field a integer",
    "--@class A",
    "-- local a = 1",
    "---local a = 1",
    "--[[ local a = 1 ]]",
    "local s = \"local a = 1\"",
    "local s = [[local a = 1]]",
    "local t = { a = 1, [\"a\"] = 1, 1 }",
    "t.a.b.c = t[a][b][c]",
    "a = a ~= 1 and ~a or a >> 1",
    "a += 1",
    "a = a ?? b",
    "local x = a?.b",
    "if a then elseif b then else end",
    "if a then",
    "end",
    "local function (",
    "return",
    "",
    "   ",
    "\t",
    "local 变量 = 1",
    "import(\"x\")",
    "local m = import(\"x\")",
    "check(a)",
    "local ok = check(a, \"msg\")",
    "n += 1",
    "require \"x\"",
    "local m = require(\"x\")",
    "0x1p4 1e10 0xffULL 1i",
];

fn gen_text(r: &mut Rng, prev: Option<&String>) -> String {
    // a near-duplicate of the previous text half of the time
    if let Some(p) = prev {
        if r.chance(1, 2) {
            let mut lines: Vec<String> = p.lines().map(|s| s.to_string()).collect();
            match r.below(4) {
                0 if !lines.is_empty() => {
                    let i = r.usize_below(lines.len());
                    lines[i] = (*r.pick(LINES)).to_string();
                }
                1 => {
                    let i = r.usize_below(lines.len() + 1);
                    lines.insert(i, (*r.pick(LINES)).to_string());
                }
                2 if !lines.is_empty() => {
                    let i = r.usize_below(lines.len());
                    lines.remove(i);
                }
                _ => lines.reverse(),
            }
            let sep = if r.chance(1, 8) { "\r\n" } else { "\n" };
            return lines.join(sep) + if r.chance(1, 2) { sep } else { "" };
        }
    }
    let n = r.range(0, 7);
    let mut s = String::new();
    for _ in 0..n {
        s.push_str(*r.pick(LINES));
        s.push('\n');
    }
    s
}

pub fn generate(seed: u64) -> ParseSpec {
    let mut r = Rng::stream(seed, "workload");
    let nfiles = r.range(1, 4) as usize;
    let n = r.range(5, 40);
    let mut ops = Vec::new();
    let mut last: Option<String> = None;
    for _ in 0..n {
        match r.weighted(&[60, 8, 18, 8, 6]) {
            0 => {
                let text = gen_text(&mut r, last.as_ref());
                last = Some(text.clone());
                ops.push(POp::Set { f: r.usize_below(nfiles), text });
            }
            1 => ops.push(POp::Remove { f: r.usize_below(nfiles) }),
            2 => {
                ops.push(POp::Config { v: r.below(12) as u32, by_clone: r.chance(1, 3) });
                // the server re-sets every file after a configuration change; half of the time
                // the history does the same, sometimes only for one file
                match r.below(4) {
                    0 | 1 => ops.push(POp::ReloadAll),
                    2 => ops.push(POp::Resubmit { f: r.usize_below(nfiles) }),
                    _ => {}
                }
            }
            3 => ops.push(POp::Resubmit { f: r.usize_below(nfiles) }),
            _ => ops.push(POp::ReloadAll),
        }
    }
    ParseSpec { seed, nfiles, ops }
}

fn emmyrc_variant(v: u32) -> Emmyrc {
    let j = match v % 12 {
        0 => json!({}),
        1 => json!({"runtime": {"version": "Lua5.1"}}),
        2 => json!({"runtime": {"version": "Lua5.3"}}),
        3 => json!({"runtime": {"version": "LuaJIT"}}),
        4 => json!({"runtime": {"version": "Lua5.4", "nonstandardSymbol": ["//", "/**/", "+=", "continue", "?.", "??"]}}),
        5 => json!({"runtime": {"version": "Lua5.2", "requireLikeFunction": ["import"]}}),
        6 => json!({"runtime": {"version": "Lua5.5"}}),
        // same language level as variant 0, only the parser-relevant function tables / symbols differ
        8 => json!({"runtime": {"requireLikeFunction": ["import"]}}),
        9 => json!({"runtime": {"special": {"check": "assert", "import": "require"}}}),
        10 => json!({"runtime": {"nonstandardSymbol": ["+="]}}),
        11 => json!({"runtime": {"special": {"check": "error"}}}),
        _ => json!({"runtime": {"nonstandardSymbol": ["continue", "+=", "||", "&&", "!"]}}),
    };
    serde_json::from_value(j).unwrap_or_default()
}

fn dump(tree: &emmylua_parser::LuaSyntaxTree) -> (String, Vec<String>) {
    let root = tree.get_red_root();
    let d = format!("{:#?}", root);
    let errs: Vec<String> = tree.get_errors().iter().map(|e| format!("{:?} {:?} {}", e.kind, e.range, e.message)).collect();
    (d, errs)
}

fn judge(spec: &ParseSpec) -> (Vec<(String, String)>, String, BTreeMap<String, u64>) {
    let mut counters: BTreeMap<String, u64> = BTreeMap::new();
    let mut analysis = EmmyLuaAnalysis::new();
    let mut cfg_v = 0u32;
    analysis.update_config(Arc::new(emmyrc_variant(cfg_v)));
    let root = std::path::PathBuf::from(format!("/verif-sim-ws/p{:016x}", spec.seed));
    analysis.add_main_workspace(root.clone());
    // per file: (text, config variant in force when it was set)
    let mut model: Vec<Option<(String, u32)>> = vec![None; spec.nfiles];
    let mut digest = simcore::Digest::new();
    let mut violations = Vec::new();
    for (step, op) in spec.ops.iter().enumerate() {
        match op {
            POp::Set { f, text } => {
                if *f >= spec.nfiles {
                    continue;
                }
                let uri = file_path_to_uri(&root.join(format!("f{f}.lua"))).unwrap();
                analysis.update_file_by_uri(&uri, Some(text.clone()));
                model[*f] = Some((text.clone(), cfg_v));
                *counters.entry("op.set".into()).or_insert(0) += 1;
            }
            POp::Remove { f } => {
                if *f >= spec.nfiles || model[*f].is_none() {
                    continue;
                }
                let uri = file_path_to_uri(&root.join(format!("f{f}.lua"))).unwrap();
                analysis.remove_file_by_uri(&uri);
                model[*f] = None;
                *counters.entry("op.remove".into()).or_insert(0) += 1;
            }
            POp::Config { v, by_clone } => {
                cfg_v = *v;
                let target = emmyrc_variant(cfg_v);
                let rc = if *by_clone {
                    let mut e = (*analysis.get_emmyrc()).clone();
                    e.runtime = target.runtime.clone();
                    *counters.entry("op.config_by_clone_and_modify".into()).or_insert(0) += 1;
                    e
                } else {
                    target
                };
                analysis.update_config(Arc::new(rc));
                *counters.entry("op.config".into()).or_insert(0) += 1;
            }
            POp::Resubmit { f } => {
                if *f >= spec.nfiles {
                    continue;
                }
                let Some((text, old_v)) = model[*f].clone() else { continue };
                let uri = file_path_to_uri(&root.join(format!("f{f}.lua"))).unwrap();
                analysis.update_file_by_uri(&uri, Some(text.clone()));
                if old_v != cfg_v {
                    *counters.entry("probe.identical_text_set_again_under_another_config".into()).or_insert(0) += 1;
                }
                model[*f] = Some((text, cfg_v));
                *counters.entry("op.resubmit".into()).or_insert(0) += 1;
            }
            POp::ReloadAll => {
                let mut list = Vec::new();
                for f in 0..spec.nfiles {
                    if let Some((text, old_v)) = model[f].clone() {
                        if old_v != cfg_v {
                            *counters.entry("probe.identical_text_set_again_under_another_config".into()).or_insert(0) += 1;
                        }
                        list.push((file_path_to_uri(&root.join(format!("f{f}.lua"))).unwrap(), Some(text.clone())));
                        model[f] = Some((text, cfg_v));
                    }
                }
                analysis.update_files_by_uri(list);
                *counters.entry("op.reload_all".into()).or_insert(0) += 1;
            }
        }
        // every file currently in the VFS equals a fresh standalone parse
        for f in 0..spec.nfiles {
            let Some((text, v)) = &model[f] else { continue };
            let uri = file_path_to_uri(&root.join(format!("f{f}.lua"))).unwrap();
            let Some(fid) = analysis.get_file_id(&uri) else {
                violations.push(("C04:file-missing".to_string(), format!("step {step}: f{f} has no file id")));
                continue;
            };
            let vfs = analysis.compilation.get_db().get_vfs();
            let Some(tree) = vfs.get_syntax_tree(&fid) else {
                violations.push(("C04:tree-missing".to_string(), format!("step {step}: f{f} has no syntax tree")));
                continue;
            };
            let (sd, se) = dump(tree);
            let mut fresh_cache = rowan::NodeCache::default();
            let rc = emmyrc_variant(*v);
            let ref_tree = LuaParser::parse(text, rc.get_parse_config(&mut fresh_cache));
            let (rd, re) = dump(&ref_tree);
            digest.str(&sd);
            if sd != rd {
                let line = sd.lines().zip(rd.lines()).position(|(a, b)| a != b).unwrap_or(0);
                violations.push((
                    "C04:tree-differs-from-fresh-parse".to_string(),
                    format!(
                        "step {step} ({op:?}) file f{f} config variant {v}: first differing dump line {line}: cached '{}' vs fresh '{}'",
                        sd.lines().nth(line).unwrap_or(""),
                        rd.lines().nth(line).unwrap_or("")
                    ),
                ));
            } else if se != re {
                violations.push(("C04:errors-differ-from-fresh-parse".to_string(), format!("step {step} file f{f}: cached {se:?} vs fresh {re:?}")));
            }
            // a cache mix-up that swaps equal-length tokens would show here; a text the standalone
            // parser itself does not reproduce is C01's subject (lossless trees), not this one's
            let tree_text = tree.get_red_root().text().to_string();
            let fresh_text = ref_tree.get_red_root().text().to_string();
            if &fresh_text != text {
                *counters.entry("observed.standalone_parse_not_lossless (C01, not judged here)".into()).or_insert(0) += 1;
            }
            if &tree_text != text && &fresh_text == text {
                violations.push(("C04:tree-text-differs-from-content".to_string(), format!("step {step} file f{f}: tree text {tree_text:?} vs content {text:?}")));
            }
        }
        if !violations.is_empty() {
            break;
        }
    }
    let mut seen = std::collections::BTreeSet::new();
    violations.retain(|x| seen.insert(x.0.clone()));
    (violations, digest.hex(), counters)
}

pub fn run(spec_v: &Value, verbose: bool) -> CaseReport {
    let Ok(spec) = serde_json::from_value::<ParseSpec>(spec_v.clone()) else {
        return CaseReport { error: Some("bad spec".into()), ..Default::default() };
    };
    let hs = simcore::rng::derive(spec.seed, "hash");
    let s2 = spec.clone();
    match simcore::on_fresh_thread(hs, 64, move || judge(&s2)) {
        Ok((violations, digest, counters)) => {
            if verbose {
                println!("spec: {}", serde_json::to_string_pretty(&spec).unwrap_or_default());
            }
            CaseReport {
                violations,
                digest: digest.clone(),
                nontrivial: spec.ops.iter().filter(|o| matches!(o, POp::Set { .. })).count() >= 2,
                final_state: digest,
                counters,
                sample: json!({"files": spec.nfiles, "ops": spec.ops.iter().take(8).collect::<Vec<_>>(), "total_ops": spec.ops.len()}),
                error: None,
            }
        }
        Err(e) => CaseReport {
            violations: vec![("C04:parse-panicked".into(), e.chars().take(300).collect())],
            digest: "panic".into(),
            nontrivial: true,
            ..Default::default()
        },
    }
}

pub fn shrink(spec_v: &Value) -> Vec<Value> {
    let Ok(spec) = serde_json::from_value::<ParseSpec>(spec_v.clone()) else { return vec![] };
    let mut out = Vec::new();
    let n = spec.ops.len();
    if n > 1 {
        let mut a = spec.clone();
        a.ops.truncate(n / 2);
        out.push(a);
        let mut b = spec.clone();
        b.ops = spec.ops[n / 2..].to_vec();
        out.push(b);
    }
    for i in 0..n {
        let mut c = spec.clone();
        c.ops.remove(i);
        out.push(c);
    }
    out.into_iter().filter_map(|s| serde_json::to_value(s).ok()).collect()
}
