//! E-HS: the same program under many owned hash seeds must give the same canonical output.
//! C11 (analysis results), C32 (configuration merging), C35 (documentation export).

use std::collections::BTreeMap;

use serde_json::{Value, json};
use simcore::driver::CaseReport;

use crate::hist::{HistSpec, Op, World};
use crate::observe;

/// Sweep points (hash seed, heap salt): the first ~two thirds vary the hash seed with an
/// untouched heap, the rest keep the first hash seed and vary the heap layout of the run thread.
fn seeds_for(spec_seed: u64, k: usize) -> Vec<(u64, u64)> {
    let first = simcore::rng::derive(spec_seed, "sweep0");
    let n_hash = (k * 2).div_ceil(3).max(2).min(k);
    (0..k)
        .map(|i| {
            if i < n_hash {
                (simcore::rng::derive(spec_seed, &format!("sweep{i}")), 0)
            } else {
                (first, simcore::rng::derive(spec_seed, &format!("heap{i}")) | 1)
            }
        })
        .collect()
}

pub fn sweep_width() -> usize {
    std::env::var("VERIF_SWEEP").ok().and_then(|s| s.parse().ok()).unwrap_or(8)
}

// ------------------------------------------------------------------------------------------ C11

pub fn c11_generate(seed: u64) -> HistSpec {
    let mut s = crate::hist::generate("C09", seed);
    // registration order is fixed by the spec; the history is short (0-4 steps) and has no reindex
    s.ops.retain(|o| !matches!(o, Op::Reindex));
    s.ops.truncate((seed % 5) as usize);
    s.batch_initial = true;
    s
}

fn c11_once(spec: &HistSpec) -> Vec<String> {
    let mut w = World::empty(spec.seed, &spec.files, &spec.cfg);
    let items: Vec<(usize, u32)> = spec.init.iter().enumerate().map(|(f, v)| (f, *v)).collect();
    w.load(&items, true);
    for op in &spec.ops {
        w.apply(op);
    }
    w.observe().lines
}

pub fn c11_run(spec_v: &Value, verbose: bool) -> CaseReport {
    let spec: HistSpec = match serde_json::from_value(spec_v.clone()) {
        Ok(s) => s,
        Err(e) => return CaseReport { error: Some(format!("bad spec: {e}")), ..Default::default() },
    };
    let k = sweep_width();
    let mut outs: Vec<((u64, u64), Vec<String>)> = Vec::new();
    for (hs, salt) in seeds_for(spec.seed, k) {
        let s = spec.clone();
        match simcore::on_fresh_thread_salted(hs, salt, 64, move || c11_once(&s)) {
            Ok(lines) => outs.push(((hs, salt), lines)),
            Err(e) => {
                return CaseReport {
                    violations: vec![("C11:panicked".into(), e.chars().take(300).collect())],
                    digest: "panic".into(),
                    nontrivial: true,
                    ..Default::default()
                };
            }
        }
    }
    let mut violations = Vec::new();
    let mut distinct: BTreeMap<String, usize> = BTreeMap::new();
    for (_, l) in &outs {
        *distinct.entry(digest(l)).or_insert(0) += 1;
    }
    if distinct.len() > 1 {
        let base = &outs[0];
        let other = outs.iter().find(|o| digest(&o.1) != digest(&base.1)).unwrap();
        let df = observe::diff(&base.1, &other.1);
        for (cl, det) in crate::hist::class_of_diff_pub("C11", "depends-on-hash-seed", &df, &base.1) {
            violations.push((
                cl,
                format!("{} distinct outcomes over {k} sweep points; (hash seed, heap salt) {:x?} vs {:x?}: {det}", distinct.len(), base.0, other.0),
            ));
        }
    }
    if verbose {
        println!("spec: {}", serde_json::to_string_pretty(&spec).unwrap_or_default());
    }
    let mut counters = BTreeMap::new();
    counters.insert("hash_seeds_swept".to_string(), k as u64);
    if distinct.len() > 1 {
        counters.insert("cases_with_seed_dependent_outcome".to_string(), 1);
    }
    CaseReport {
        violations,
        digest: digest(&outs[0].1),
        nontrivial: spec.files.len() >= 2,
        final_state: digest(&outs[0].1),
        counters,
        sample: json!({"files": spec.files.iter().map(|f| f.rel.clone()).collect::<Vec<_>>(), "initial_variants": spec.init, "ops": spec.ops, "hash_seeds": k, "observation_lines": outs[0].1.len()}),
        error: None,
    }
}

fn digest(lines: &[String]) -> String {
    let mut d = simcore::Digest::new();
    for l in lines {
        d.str(l);
    }
    d.hex()
}

// ------------------------------------------------------------------------------------------ C32

#[derive(serde::Serialize, serde::Deserialize, Clone, Debug)]
pub struct CfgSpec {
    pub seed: u64,
    /// the configuration files, in load order
    pub files: Vec<Value>,
    /// some key is both a value and a prefix of another key (outside the merge reference model)
    pub value_and_prefix: bool,
    /// how many of the leading configurations are written to disk and loaded as files (the rest is
    /// passed as in-memory partial configurations, as the language server does for client settings)
    #[serde(default)]
    pub as_files: usize,
}

const SCALAR_KEYS: &[(&str, &[&str])] = &[
    ("diagnostics.enable", &["true", "false"]),
    ("diagnostics.diagnosticInterval", &["100", "500", "900"]),
    ("runtime.version", &["\"Lua5.1\"", "\"Lua5.4\"", "\"LuaJIT\""]),
    ("workspace.enableReindex", &["true", "false"]),
    ("workspace.reindexDuration", &["1000", "5000"]),
    ("completion.enable", &["true", "false"]),
    ("completion.callSnippet", &["true", "false"]),
    ("hint.enable", &["true", "false"]),
    ("strict.requirePath", &["true", "false"]),
    ("codeLens.enable", &["true", "false"]),
    ("semanticTokens.enable", &["true", "false"]),
    ("hover.enable", &["true", "false"]),
];
const ARRAY_KEYS: &[(&str, &[&str])] = &[
    ("diagnostics.disable", &["\"unused\"", "\"undefined-global\"", "\"syntax-error\"", "\"missing-return\""]),
    ("diagnostics.globals", &["\"vim\"", "\"love\"", "\"jit\"", "\"ngx\""]),
    ("runtime.requireLikeFunction", &["\"import\"", "\"load\"", "\"include\""]),
    ("runtime.extensions", &["\".lua\"", "\".lua.txt\"", "\".luau\""]),
    ("workspace.ignoreDir", &["\"build\"", "\"dist\"", "\".git\""]),
    // arrays whose items are objects (or a mix of strings and objects)
    ("workspace.library", &["\"/libs/a\"", "{\"path\": \"/libs/b\"}", "{\"path\": \"/libs/c\", \"ignoreDir\": [\"test\"]}", "{\"path\": \"/libs/d\"}", "\"/libs/e\""]),
    ("workspace.moduleMap", &["{\"pattern\": \"^lib(.*)$\", \"replace\": \"script$1\"}", "{\"pattern\": \"^a\\\\.(.*)$\", \"replace\": \"b.$1\"}", "{\"pattern\": \"^x$\", \"replace\": \"y\"}"]),
];

fn set_key(obj: &mut serde_json::Map<String, Value>, dotted: &str, v: Value, flat: bool) {
    if flat {
        obj.insert(dotted.to_string(), v);
        return;
    }
    let parts: Vec<&str> = dotted.split('.').collect();
    let mut cur = obj;
    for (i, p) in parts.iter().enumerate() {
        if i == parts.len() - 1 {
            cur.insert(p.to_string(), v);
            return;
        }
        let e = cur.entry(p.to_string()).or_insert_with(|| Value::Object(Default::default()));
        if !e.is_object() {
            *e = Value::Object(Default::default());
        }
        cur = e.as_object_mut().unwrap();
    }
}

/// The whole key space of the real configuration type, derived from `Emmyrc::default()`:
/// (scalar keys with candidate values, array keys with candidate items, pairs of sibling keys
/// where one name is a textual prefix of the other). A candidate is kept only if a configuration
/// that sets just that key deserializes and serializes back to the same value, so every generated
/// file is a valid configuration whatever the key.
type SchemaKeys = (Vec<(String, Vec<Value>)>, Vec<(String, Vec<Value>)>, Vec<(String, String)>);

fn schema_keys() -> &'static SchemaKeys {
    static KEYS: std::sync::OnceLock<SchemaKeys> = std::sync::OnceLock::new();
    KEYS.get_or_init(|| {
        let def = serde_json::to_value(emmylua_code_analysis::Emmyrc::default()).unwrap_or(Value::Null);
        let mut flat = Vec::new();
        flatten("", &def, &mut flat);
        let round_trips = |k: &str, v: &Value| -> bool {
            let mut obj = serde_json::Map::new();
            set_key(&mut obj, k, v.clone(), false);
            let Ok(e) = serde_json::from_value::<emmylua_code_analysis::Emmyrc>(Value::Object(obj)) else { return false };
            let back = serde_json::to_value(e).unwrap_or(Value::Null);
            let mut fb = Vec::new();
            flatten("", &back, &mut fb);
            fb.iter().any(|(k2, v2)| k2 == k && v2 == v)
        };
        let mut scalars = Vec::new();
        let mut arrays = Vec::new();
        for (k, v) in &flat {
            if k.is_empty() || k.starts_with('$') {
                continue;
            }
            match v {
                Value::Bool(_) => scalars.push((k.clone(), vec![Value::Bool(true), Value::Bool(false)])),
                Value::Number(n) if n.is_i64() || n.is_u64() => {
                    let b = n.as_i64().unwrap_or(0);
                    let c: Vec<Value> = [b, b + 1, b + 7].iter().map(|x| serde_json::json!(x)).filter(|x| round_trips(k, x)).collect();
                    if c.len() >= 2 {
                        scalars.push((k.clone(), c));
                    }
                }
                Value::Null => {
                    let c: Vec<Value> = [serde_json::json!("zz_s"), serde_json::json!("zz_t"), serde_json::json!(5), serde_json::json!(true)]
                        .into_iter()
                        .filter(|x| round_trips(k, x))
                        .collect();
                    if c.len() >= 2 {
                        scalars.push((k.clone(), c));
                    }
                }
                Value::Array(_) => {
                    let items: Vec<Value> = ["zz_a", "zz_b", "zz_c", "zz_d"].iter().map(|x| serde_json::json!(x)).collect();
                    if round_trips(k, &Value::Array(vec![items[0].clone(), items[1].clone()])) {
                        arrays.push((k.clone(), items));
                    }
                }
                _ => {}
            }
        }
        let all: Vec<&String> = scalars.iter().map(|x| &x.0).chain(arrays.iter().map(|x| &x.0)).collect();
        let mut pairs = Vec::new();
        for a in &all {
            for b in &all {
                if a != b && b.starts_with(a.as_str()) && a.rsplit_once('.').map(|x| x.0) == b.rsplit_once('.').map(|x| x.0) {
                    pairs.push(((*a).clone(), (*b).clone()));
                }
            }
        }
        (scalars, arrays, pairs)
    })
}

fn schema_value(r: &mut simcore::Rng, key: &str) -> Option<Value> {
    let (scalars, arrays, _) = schema_keys();
    if let Some((_, c)) = scalars.iter().find(|x| x.0 == key) {
        return Some(r.pick(c).clone());
    }
    if let Some((_, items)) = arrays.iter().find(|x| x.0 == key) {
        let n = r.range(1, 3) as usize;
        let mut arr = Vec::new();
        for _ in 0..n {
            let v = r.pick(items).clone();
            if !arr.contains(&v) {
                arr.push(v);
            }
        }
        return Some(Value::Array(arr));
    }
    None
}

pub fn c32_generate(seed: u64) -> CfgSpec {
    let mut r = simcore::Rng::stream(seed, "workload");
    let nfiles = r.range(1, 3) as usize;
    let mut files = Vec::new();
    let mut vap = false;
    // a sixth of the cases: an earlier file sets the longer-named of two sibling keys whose
    // names share a textual prefix (`globalsRegex` / `globals`), a later file the shorter one
    let (sch_scalars, sch_arrays, sch_pairs) = schema_keys();
    let sibling = if !sch_pairs.is_empty() && r.chance(1, 6) { Some(r.pick(sch_pairs).clone()) } else { None };
    let nfiles = if sibling.is_some() { nfiles.max(2) } else { nfiles };
    // an eighth of the cases: three files, the middle one resets to `null` a key the first one
    // set and the last one sets it again (the later value must win over what the null erased:
    // for an array, the result is the last file's array alone)
    let null_reset: Option<(&str, &[&str], bool)> = if sibling.is_none() && r.chance(1, 8) {
        if r.chance(2, 3) {
            let (k, v) = *r.pick(&ARRAY_KEYS[..5]);
            Some((k, v, true))
        } else {
            let (k, v) = *r.pick(SCALAR_KEYS);
            Some((k, v, false))
        }
    } else {
        None
    };
    let nfiles = if null_reset.is_some() { 3 } else { nfiles };
    for fi in 0..nfiles {
        let mut obj = serde_json::Map::new();
        let nk = r.range(1, 6);
        let mut used: Vec<&str> = Vec::new();
        if let Some((k, vals, is_arr)) = null_reset {
            let v = if fi == 1 {
                Value::Null
            } else if is_arr {
                let a: Value = serde_json::from_str(*r.pick(vals)).unwrap();
                let b: Value = serde_json::from_str(*r.pick(vals)).unwrap();
                Value::Array(if a == b { vec![a] } else { vec![a, b] })
            } else {
                serde_json::from_str(*r.pick(vals)).unwrap()
            };
            set_key(&mut obj, k, v, r.chance(1, 2));
            used.push(k);
        }
        if let Some((short, long)) = &sibling {
            let key = if fi == 0 { long } else if fi == 1 { short } else { long };
            if let Some(v) = schema_value(&mut r, key) {
                set_key(&mut obj, key, v, r.chance(1, 2));
            }
        }
        for _ in 0..nk {
            let flat = r.chance(1, 2);
            if r.chance(2, 5) {
                // any key of the real configuration type
                let key: &String = if r.chance(2, 3) && !sch_scalars.is_empty() { &r.pick(sch_scalars).0 } else if !sch_arrays.is_empty() { &r.pick(sch_arrays).0 } else { continue };
                let top_used = flat_contains(&obj, key);
                if top_used {
                    continue;
                }
                if let Some(v) = schema_value(&mut r, key) {
                    set_key(&mut obj, key, v, flat);
                }
                continue;
            }
            if r.chance(3, 5) {
                let (k, vals) = *r.pick(SCALAR_KEYS);
                if used.contains(&k) {
                    continue;
                }
                used.push(k);
                let v: Value = serde_json::from_str(*r.pick(vals)).unwrap();
                set_key(&mut obj, k, v, flat);
            } else {
                let (k, vals) = *r.pick(ARRAY_KEYS);
                if used.contains(&k) {
                    continue;
                }
                used.push(k);
                let n = r.range(0, 3) as usize;
                let mut arr = Vec::new();
                for _ in 0..n {
                    let v: Value = serde_json::from_str(*r.pick(vals)).unwrap();
                    if !arr.contains(&v) {
                        arr.push(v);
                    }
                }
                set_key(&mut obj, k, Value::Array(arr), flat);
            }
        }
        if r.chance(1, 25) {
            // a key that is both a value and a prefix of a dotted key
            let (k, _) = *r.pick(SCALAR_KEYS);
            let top = k.split('.').next().unwrap();
            if !obj.contains_key(top) {
                obj.insert(top.to_string(), serde_json::json!(1));
                obj.insert(k.to_string(), serde_json::json!(true));
                vap = true;
            }
        }
        files.push(Value::Object(obj));
    }
    let as_files = match r.below(3) {
        0 => 0,
        1 => files.len(),
        _ => r.usize_below(files.len() + 1),
    };
    CfgSpec { seed, files, value_and_prefix: vap, as_files }
}

/// Is the dotted key already set in `obj`, in either spelling?
fn flat_contains(obj: &serde_json::Map<String, Value>, dotted: &str) -> bool {
    let mut flat = Vec::new();
    flatten("", &Value::Object(obj.clone()), &mut flat);
    flat.iter().any(|(k, _)| k == dotted || k.starts_with(&format!("{dotted}.")) || dotted.starts_with(&format!("{k}.")))
}

fn flatten(prefix: &str, v: &Value, out: &mut Vec<(String, Value)>) {
    match v {
        Value::Object(m) => {
            for (k, x) in m {
                let nk = if prefix.is_empty() { k.clone() } else { format!("{prefix}.{k}") };
                flatten(&nk, x, out);
            }
        }
        _ => out.push((prefix.to_string(), v.clone())),
    }
}

/// Reference model: flatten each file, apply in order (scalars: later wins; arrays: append
/// without duplicates), un-flatten, deserialize.
fn c32_reference(files: &[Value]) -> Option<String> {
    let mut merged: BTreeMap<String, Value> = BTreeMap::new();
    for f in files {
        let mut flat = Vec::new();
        flatten("", f, &mut flat);
        // both spellings of one key inside one file: undefined by the statement
        let mut keys: Vec<&String> = flat.iter().map(|(k, _)| k).collect();
        keys.sort();
        if keys.windows(2).any(|w| w[0] == w[1]) {
            return None;
        }
        for (k, v) in flat {
            match (merged.get_mut(&k), v) {
                (Some(Value::Array(base)), Value::Array(add)) => {
                    for x in add {
                        if !base.contains(&x) {
                            base.push(x);
                        }
                    }
                }
                (_, v) => {
                    merged.insert(k, v);
                }
            }
        }
    }
    // a key whose final value is null: what that means is not fixed by the statement
    if merged.values().any(|v| v.is_null()) {
        return None;
    }
    let keys: Vec<&String> = merged.keys().collect();
    for a in &keys {
        for b in &keys {
            if a != b && b.starts_with(&format!("{a}.")) {
                return None; // value-and-prefix: outside the model
            }
        }
    }
    let mut obj = serde_json::Map::new();
    for (k, v) in &merged {
        set_key(&mut obj, k, v.clone(), false);
    }
    let emmyrc: emmylua_code_analysis::Emmyrc = serde_json::from_value(Value::Object(obj)).unwrap_or_default();
    serde_json::to_string(&emmyrc).ok()
}

pub fn c32_run(spec_v: &Value, verbose: bool) -> CaseReport {
    let spec: CfgSpec = match serde_json::from_value(spec_v.clone()) {
        Ok(s) => s,
        Err(e) => return CaseReport { error: Some(format!("bad spec: {e}")), ..Default::default() },
    };
    let k = sweep_width().max(16);
    let mut outcomes: Vec<((u64, u64), String)> = Vec::new();
    for (hs, salt) in seeds_for(spec.seed, k) {
        let files = spec.files.clone();
        let as_files = spec.as_files.min(files.len());
        let run_dir = if as_files > 0 { Some(simcore::scratch::RunDir::acquire("c32", spec.seed)) } else { None };
        let dir = run_dir.as_ref().map(|d| d.0.clone()).unwrap_or_default();
        let r = simcore::on_fresh_thread_salted(hs, salt, 16, move || {
            let mut paths = Vec::new();
            if as_files > 0 {
                for (i, f) in files.iter().take(as_files).enumerate() {
                    let p = dir.join(format!("cfg{i}.json"));
                    let _ = std::fs::write(&p, serde_json::to_string_pretty(f).unwrap_or_default());
                    paths.push(p);
                }
            }
            let partial: Vec<Value> = files.iter().skip(as_files).cloned().collect();
            let e = emmylua_code_analysis::load_configs(paths, if partial.is_empty() { None } else { Some(partial) });
            serde_json::to_string(&e).unwrap_or_default()
        });
        drop(run_dir);
        outcomes.push(((hs, salt), r.unwrap_or_else(|e| format!("panicked: {}", e.chars().take(120).collect::<String>()))));
    }
    let mut violations = Vec::new();
    let mut counters = BTreeMap::new();
    counters.insert("hash_seeds_swept".to_string(), k as u64);
    if spec.as_files > 0 {
        counters.insert("loaded_from_files_on_disk".to_string(), 1);
    }
    {
        let (sc, ar, pairs) = schema_keys();
        let mut flat = Vec::new();
        for f in &spec.files {
            flatten("", f, &mut flat);
        }
        if flat.iter().any(|(_, v)| v.is_null()) {
            counters.insert("probe.middle_file_resets_key_to_null".to_string(), 1);
        }
        if pairs.iter().any(|(a, b)| flat.iter().any(|(k, _)| k == a) && flat.iter().any(|(k, _)| k == b)) {
            counters.insert("sibling_keys_with_shared_name_prefix".to_string(), 1);
        }
        counters.insert(format!("schema.key_space:scalar_keys={},array_keys={},sibling_prefix_pairs={} (runs)", sc.len(), ar.len(), pairs.len()), 1);
    }
    let distinct: std::collections::BTreeSet<&String> = outcomes.iter().map(|o| &o.1).collect();
    let panics = outcomes.iter().filter(|o| o.1.starts_with("panicked")).count();
    if distinct.len() > 1 {
        let kind = if panics > 0 { "panic-under-some-seeds" } else { "different-config" };
        violations.push((
            format!("C32:seed-dependent:{kind}{}", if spec.value_and_prefix { ":value-and-prefix-key" } else { "" }),
            format!("{} distinct outcomes over {k} hash seeds ({panics} panicked) for files {}", distinct.len(), serde_json::to_string(&spec.files).unwrap_or_default()),
        ));
    } else if panics == k {
        // panics under every seed: C31's business
        counters.insert("skipped.panics_under_every_seed".to_string(), 1);
    } else if let Some(want) = c32_reference(&spec.files) {
        counters.insert("merge_model_compared".to_string(), 1);
        let got = &outcomes[0].1;
        if *got != want {
            // name what differs
            let g: Value = serde_json::from_str(got).unwrap_or(Value::Null);
            let w: Value = serde_json::from_str(&want).unwrap_or(Value::Null);
            let (mut fg, mut fw) = (Vec::new(), Vec::new());
            flatten("", &g, &mut fg);
            flatten("", &w, &mut fw);
            let diff: Vec<String> = fw
                .iter()
                .filter(|(k, v)| fg.iter().find(|(k2, _)| k2 == k).map(|(_, v2)| v2 != v).unwrap_or(true))
                .map(|(k, v)| format!("{k}: expected {v}, loaded {}", fg.iter().find(|(k2, _)| k2 == k).map(|(_, v2)| v2.to_string()).unwrap_or("<missing>".into())))
                .take(4)
                .collect();
            let is_array = diff.iter().any(|d| d.contains('['));
            let mixed = spec.files.iter().any(|f| f.as_object().map(|m| m.keys().any(|k| k.contains('.'))).unwrap_or(false));
            let kind = if is_array { "array-merge" } else if mixed { "later-file-loses:flat-vs-nested" } else { "later-file-loses" };
            violations.push((
                format!("C32:merge:{kind}"),
                format!("files (in load order) {}: {}", serde_json::to_string(&spec.files).unwrap_or_default(), diff.join("; ")),
            ));
        }
    } else {
        counters.insert("excluded.outside_merge_model".to_string(), 1);
    }
    if verbose {
        println!("spec: {}", serde_json::to_string_pretty(&spec).unwrap_or_default());
        for o in &outcomes {
            println!("{:x?}: {}", o.0, o.1.chars().take(200).collect::<String>());
        }
    }
    let d = simcore::digest_str(&outcomes.iter().map(|o| o.1.clone()).collect::<Vec<_>>().join("\n"));
    CaseReport {
        violations,
        digest: d.clone(),
        nontrivial: spec.files.len() >= 2 || spec.files.iter().any(|f| f.as_object().map(|m| m.len() >= 2).unwrap_or(false)),
        final_state: simcore::digest_str(&outcomes[0].1),
        counters,
        sample: json!({"files": spec.files, "hash_seeds": k}),
        error: None,
    }
}

pub fn c32_shrink(spec_v: &Value) -> Vec<Value> {
    let Ok(spec) = serde_json::from_value::<CfgSpec>(spec_v.clone()) else { return vec![] };
    let mut out = Vec::new();
    if spec.files.len() > 1 {
        for i in 0..spec.files.len() {
            let mut s = spec.clone();
            s.files.remove(i);
            out.push(s);
        }
    }
    for (i, f) in spec.files.iter().enumerate() {
        if let Some(m) = f.as_object() {
            if m.len() > 1 {
                for k in m.keys() {
                    let mut s = spec.clone();
                    s.files[i].as_object_mut().unwrap().remove(k);
                    out.push(s);
                }
            }
        }
    }
    out.into_iter().filter_map(|s| serde_json::to_value(s).ok()).collect()
}

// ------------------------------------------------------------------------------------------ C35

#[derive(serde::Serialize, serde::Deserialize, Clone, Debug)]
pub struct DocSpec {
    pub seed: u64,
    pub files: Vec<crate::ws::FileSpec>,
    pub variants: Vec<u32>,
}

pub fn c35_generate(seed: u64) -> DocSpec {
    let mut r = simcore::Rng::stream(seed, "workload");
    let mut files = crate::ws::gen_workspace(&mut r, 3, 8);
    // a third of the workspaces: one class declared both in the library root and in the main
    // workspace (it is a main-workspace class and must be exported, whichever location is first)
    if r.chance(1, 3) {
        let at_front = r.chance(1, 2);
        for (i, f) in crate::ws::group("libpart", 90).into_iter().enumerate() {
            if at_front {
                files.insert(i, f);
            } else {
                files.push(f);
            }
        }
    }
    let variants = files.iter().map(|_| *r.pick(&[0u32, 0, 0, 1])).collect();
    DocSpec { seed, files, variants }
}

/// Entities the generated main workspace declares: ((kind, exported name), how many distinct
/// entities carry that name). A public type declared in several files (partial class) is one
/// entity; every `(private)` declaration is an entity of its own file; a `---@namespace` line
/// prefixes the names declared after it in the same file.
fn declared_entities(spec: &DocSpec) -> (Vec<((String, String), usize)>, Vec<String>) {
    let mut public: std::collections::BTreeSet<(String, String)> = Default::default();
    let mut private: BTreeMap<(String, String), usize> = BTreeMap::new();
    let mut lib = Vec::new();
    for (f, v) in spec.files.iter().zip(&spec.variants) {
        let text = crate::ws::file_text(&f.kind, f.n, *v);
        let is_lib = f.rel.starts_with("lib/");
        let mut namespace: Option<String> = None;
        // a file declares a private name at most once as an entity
        let mut private_here: std::collections::BTreeSet<(String, String)> = Default::default();
        for line in text.lines() {
            let l = line.trim();
            if let Some(ns) = l.strip_prefix("---@namespace ") {
                namespace = Some(ns.trim().to_string());
                continue;
            }
            for (tag, kind) in [("---@class ", "class"), ("---@enum ", "enum"), ("---@alias ", "alias")] {
                if let Some(rest) = l.strip_prefix(tag) {
                    let mut rest = rest.trim_start();
                    let mut attrs = "";
                    if rest.starts_with('(') {
                        if let Some(end) = rest.find(')') {
                            attrs = &rest[1..end];
                            rest = rest[end + 1..].trim_start();
                        }
                    }
                    let bare: String = rest.chars().take_while(|c| c.is_alphanumeric() || *c == '_' || *c == '.').collect();
                    if bare.is_empty() {
                        continue;
                    }
                    let name = match &namespace {
                        Some(ns) => format!("{ns}.{bare}"),
                        None => bare,
                    };
                    if is_lib {
                        lib.push(name);
                    } else if attrs.split(',').any(|a| a.trim() == "private") {
                        private_here.insert((kind.to_string(), name));
                    } else {
                        public.insert((kind.to_string(), name));
                    }
                }
            }
        }
        for k in private_here {
            *private.entry(k).or_insert(0) += 1;
        }
    }
    let mut main: BTreeMap<(String, String), usize> = BTreeMap::new();
    for k in public {
        *main.entry(k).or_insert(0) += 1;
    }
    for (k, n) in private {
        *main.entry(k).or_insert(0) += n;
    }
    (main.into_iter().collect(), lib)
}

pub fn c35_run(spec_v: &Value, verbose: bool) -> CaseReport {
    let spec: DocSpec = match serde_json::from_value(spec_v.clone()) {
        Ok(s) => s,
        Err(e) => return CaseReport { error: Some(format!("bad spec: {e}")), ..Default::default() },
    };
    let run_dir = simcore::scratch::RunDir::acquire("doc", spec.seed);
    let dir = run_dir.0.clone();
    let ws = dir.join("ws");
    let has_lib = spec.files.iter().any(|f| f.rel.starts_with("lib/"));
    for (f, v) in spec.files.iter().zip(&spec.variants) {
        // library files live outside the main workspace root
        let p = if let Some(rest) = f.rel.strip_prefix("lib/") { dir.join("lib").join(rest) } else { ws.join(&f.rel) };
        if let Some(parent) = p.parent() {
            let _ = std::fs::create_dir_all(parent);
        }
        std::fs::write(&p, crate::ws::file_text(&f.kind, f.n, *v)).expect("write doc ws");
    }
    let _ = std::fs::create_dir_all(&ws);
    if has_lib {
        std::fs::write(ws.join(".emmyrc.json"), json!({"workspace": {"library": [dir.join("lib").to_string_lossy()]}}).to_string()).expect("emmyrc");
    }
    let k = sweep_width().min(6).max(2);
    let mut outs: Vec<((u64, u64), Result<Vec<u8>, String>)> = Vec::new();
    for (i, (hs, salt)) in seeds_for(spec.seed, k).into_iter().enumerate() {
        let out_path = dir.join(format!("out{i}.json"));
        let (ws2, out2) = (ws.clone(), out_path.clone());
        let r = simcore::on_fresh_thread_salted(hs, salt, 256, move || {
            let args = emmylua_doc_cli::CmdArgs {
                config: None,
                input: vec![],
                workspace: vec![ws2],
                exclude_pattern: None,
                include_pattern: None,
                output_format: emmylua_doc_cli::Format::Json,
                format: None,
                output: emmylua_doc_cli::OutputDestination::File(out2),
                override_template: None,
                site_name: None,
                mixin: None,
                verbose: false,
            };
            emmylua_doc_cli::run_doc_cli(args).map_err(|e| e.to_string())
        });
        let bytes = match r {
            Ok(Ok(())) => std::fs::read(&out_path).map_err(|e| e.to_string()),
            Ok(Err(e)) => Err(format!("error: {e}")),
            Err(e) => Err(format!("panicked: {e}")),
        };
        outs.push(((hs, salt), bytes));
    }
    if let Ok(d) = std::env::var("VERIF_C35_DUMP") {
        let _ = std::fs::create_dir_all(&d);
        for (i, o) in outs.iter().enumerate() {
            if let Ok(b) = &o.1 {
                let _ = std::fs::write(format!("{d}/out{i}.json"), b);
            }
        }
    }
    drop(run_dir);
    let mut violations = Vec::new();
    let mut counters = BTreeMap::new();
    counters.insert("hash_seeds_swept".to_string(), k as u64);
    let first = outs[0].1.clone();
    let distinct: std::collections::BTreeSet<String> = outs
        .iter()
        .map(|o| match &o.1 {
            Ok(b) => simcore::digest_str(&String::from_utf8_lossy(b)),
            Err(e) => e.clone(),
        })
        .collect();
    if distinct.len() > 1 {
        // what differs: order only, or content?
        let norm = |b: &Result<Vec<u8>, String>| -> String {
            match b {
                Ok(b) => {
                    let mut lines: Vec<&str> = std::str::from_utf8(b).unwrap_or("").lines().map(|l| l.trim().trim_end_matches(',')).collect();
                    lines.sort();
                    lines.join("\n")
                }
                Err(e) => e.clone(),
            }
        };
        let sorted: std::collections::BTreeSet<String> = outs.iter().map(|o| norm(&o.1)).collect();
        let kind = if sorted.len() == 1 { "list-order" } else { "rendered-content" };
        // which dimension: hash seed (heap untouched) or heap layout (hash seed fixed)
        let dig = |b: &Result<Vec<u8>, String>| match b { Ok(b) => simcore::digest_str(&String::from_utf8_lossy(b)), Err(e) => e.clone() };
        let by_hash: std::collections::BTreeSet<String> = outs.iter().filter(|o| o.0.1 == 0).map(|o| dig(&o.1)).collect();
        let first_hs = outs[0].0.0;
        let by_heap: std::collections::BTreeSet<String> = outs.iter().filter(|o| o.0.0 == first_hs).map(|o| dig(&o.1)).collect();
        let dim = match (by_hash.len() > 1, by_heap.len() > 1) {
            (true, true) => "hash-seed+heap-layout",
            (true, false) => "hash-seed",
            (false, true) => "heap-layout",
            _ => "?",
        };
        // the dimension is reported, not part of the class: which of the two shows depends on the
        // heap history of the executing process, and a replay in a fresh process must name the
        // same class
        *counters.entry(format!("dimension.{dim}")).or_insert(0) += 1;
        violations.push((
            format!("C35:not-reproducible:{kind}"),
            format!("{} distinct outputs over {k} sweep points (differs along: {dim}) for a workspace of {} files", distinct.len(), spec.files.len()),
        ));
    }
    // completeness / exactly-once / nothing from libraries (first output)
    if let Ok(bytes) = &first {
        if let Ok(doc) = serde_json::from_slice::<Value>(bytes) {
            counters.insert("exports_parsed".to_string(), 1);
            let (main, lib) = declared_entities(&spec);
            let types = doc.get("types").and_then(|t| t.as_array()).cloned().unwrap_or_default();
            let names: Vec<String> = types.iter().filter_map(|t| t.get("name").and_then(|n| n.as_str()).map(|s| s.to_string())).collect();
            // exported (kind, name) pairs; a name may legitimately be declared once as a class and
            // once as an enum in different private scopes, so kinds are counted separately
            let kinded: Vec<(String, String)> = types
                .iter()
                .filter_map(|t| {
                    let name = t.get("name").and_then(|n| n.as_str())?.to_string();
                    let kind = t.get("type").and_then(|k| k.as_str()).unwrap_or("?").to_string();
                    Some((kind, name))
                })
                .collect();
            counters.insert("exported_types".to_string(), kinded.len() as u64);
            for ((kind, name), expected) in &main {
                let n = kinded.iter().filter(|(k, x)| x == name && (k == kind || k == "?")).count();
                if n < *expected {
                    violations.push((format!("C35:missing:{kind}"), format!("{kind} {name}: {expected} declared in the main workspace, {n} exported")));
                } else if n > *expected {
                    violations.push((format!("C35:duplicate:{kind}"), format!("{kind} {name}: {expected} declared in the main workspace, exported {n} times")));
                }
                if *expected > 1 {
                    *counters.entry("probe.same_name_scoped_types".to_string()).or_insert(0) += 1;
                }
            }
            for name in &lib {
                if names.contains(name) && !main.iter().any(|((_, m), _)| m == name) {
                    violations.push(("C35:library-entity-exported".into(), format!("type {name} is declared only in a library root but exported")));
                }
            }
            // std library must not leak
            for std_name in ["stringlib", "io", "file*", "tablelib", "oslib"] {
                if names.iter().any(|n| n == std_name) {
                    violations.push(("C35:std-entity-exported".into(), format!("std type {std_name} exported")));
                }
            }
            // modules: every main-workspace file whose chunk returns a value is a module, listed
            // exactly once (by file); nothing from the library root
            let modules = doc.get("modules").and_then(|t| t.as_array()).cloned().unwrap_or_default();
            let module_files: Vec<String> = modules.iter().filter_map(|m| m.get("file").and_then(|f| f.as_str()).map(|s| s.to_string())).collect();
            counters.insert("exported_modules".to_string(), module_files.len() as u64);
            for (f, v) in spec.files.iter().zip(&spec.variants) {
                let text = crate::ws::file_text(&f.kind, f.n, *v);
                let is_lib = f.rel.starts_with("lib/");
                let n = module_files.iter().filter(|p| p.ends_with(&format!("/{}", f.rel)) || (is_lib && p.ends_with(&format!("/lib/{}", f.rel.trim_start_matches("lib/"))))).count();
                if is_lib {
                    if n > 0 {
                        violations.push(("C35:library-entity-exported".into(), format!("module of library file {} is exported", f.rel)));
                    }
                    continue;
                }
                // judged: a chunk that ends in `return <one expression>`. A chunk returning several
                // values gets no export type from the analysis at all (only single-expression
                // return points are considered), so whether it "declares a module" is not settled
                // by the statement; counted, not judged.
                let last_ret = text.lines().rev().find(|l| l.starts_with("return ")).unwrap_or("");
                let single = {
                    let mut depth = 0i32;
                    let mut top_comma = false;
                    for ch in last_ret.chars() {
                        match ch {
                            '(' | '{' | '[' => depth += 1,
                            ')' | '}' | ']' => depth -= 1,
                            ',' if depth == 0 => top_comma = true,
                            _ => {}
                        }
                    }
                    !top_comma
                };
                if !last_ret.is_empty() && !single {
                    *counters.entry("not_judged.multi_value_chunk_return".to_string()).or_insert(0) += 1;
                }
                let returns_value = !last_ret.is_empty() && last_ret.trim() != "return" && single;
                let parses = !matches!(f.kind.as_str(), "broken");
                if n > 1 {
                    violations.push(("C35:duplicate:module".into(), format!("module file {} exported {n} times", f.rel)));
                } else if n == 0 && returns_value && parses && !text.starts_with("---@meta") {
                    let ret = text.lines().rev().find(|l| l.starts_with("return ")).unwrap_or("");
                    violations.push(("C35:missing:module".into(), format!("main-workspace file {} returns a value (`{ret}`) but is not among the exported modules", f.rel)));
                } else if n == 1 {
                    *counters.entry("modules_found_exactly_once".to_string()).or_insert(0) += 1;
                }
            }
            // globals exactly once per declaration site
            let globals = doc.get("globals").and_then(|t| t.as_array()).cloned().unwrap_or_default();
            let mut seen: BTreeMap<String, usize> = BTreeMap::new();
            for g in &globals {
                let key = format!("{}@{}", g.get("name").and_then(|n| n.as_str()).unwrap_or(""), g.get("loc").map(|l| l.to_string()).unwrap_or_default());
                *seen.entry(key).or_insert(0) += 1;
            }
            for (k2, n) in seen {
                if n > 1 {
                    violations.push(("C35:duplicate:global".into(), format!("global {k2} exported {n} times")));
                }
            }
            for g in &globals {
                let name = g.get("name").and_then(|n| n.as_str()).unwrap_or("");
                if name.starts_with("LibGlob") {
                    violations.push(("C35:library-entity-exported".into(), format!("global {name} is assigned only in a library root but exported")));
                }
            }
        }
    } else if let Err(e) = &first {
        violations.push(("C35:export-failed".into(), e.clone()));
    }
    let mut seen = std::collections::BTreeSet::new();
    violations.retain(|x| seen.insert(x.0.clone()));
    if verbose {
        println!("spec: {}", serde_json::to_string_pretty(&spec).unwrap_or_default());
        if let Ok(b) = &first {
            println!("{}", String::from_utf8_lossy(b).chars().take(3000).collect::<String>());
        }
    }
    let d = distinct.iter().next().cloned().unwrap_or_default();
    CaseReport {
        violations,
        digest: d.clone(),
        nontrivial: spec.files.len() >= 3,
        final_state: d,
        counters,
        sample: json!({"files": spec.files.iter().map(|f| f.rel.clone()).collect::<Vec<_>>(), "hash_seeds": k}),
        error: None,
    }
}

pub fn c35_shrink(spec_v: &Value) -> Vec<Value> {
    let Ok(spec) = serde_json::from_value::<DocSpec>(spec_v.clone()) else { return vec![] };
    let mut out = Vec::new();
    if spec.files.len() > 1 {
        for i in 0..spec.files.len() {
            let mut s = spec.clone();
            s.files.remove(i);
            s.variants.remove(i);
            out.push(s);
        }
    }
    out.into_iter().filter_map(|s| serde_json::to_value(s).ok()).collect()
}
