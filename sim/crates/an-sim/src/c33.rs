//! C33: `require` strings resolve to the files the configured patterns select (exact before
//! moduleMap before fuzzy), deterministically, and agree with go-to-definition; judged against an
//! independent reference resolver over add/remove histories, under swept hash seeds.

use std::collections::{BTreeMap, BTreeSet};
use std::path::PathBuf;
use std::sync::Arc;

use emmylua_code_analysis::{EmmyLuaAnalysis, Emmyrc, WorkspaceFolder, file_path_to_uri};
use serde::{Deserialize, Serialize};
use serde_json::{Value, json};
use simcore::Rng;
use simcore::driver::CaseReport;

#[derive(Serialize, Deserialize, Clone, Debug, PartialEq)]
pub enum MOp {
    Add { f: usize },
    /// how: 0 remove_file_by_uri, 1 update(None), 2 batch None
    Remove { f: usize, how: u8 },
    /// look every require string up now (direct `find_module`, and with `analyse` also through a
    /// requiring file that is analysed at this point of the history). Lookups are read-only: the
    /// answers at the end of the history must not depend on them.
    Query { analyse: bool },
}

#[derive(Serialize, Deserialize, Clone, Debug)]
pub struct ModSpec {
    pub seed: u64,
    /// path relative to the scratch base: "main/..." or "ext/..." (library root outside main) or
    /// "main/vendor/..." (library root inside main)
    pub files: Vec<String>,
    pub lib_outside: bool,
    pub lib_inside: bool,
    pub extra_ext: bool,
    pub require_pattern: Vec<String>,
    pub module_map: bool,
    /// which moduleMap rule (when `module_map`): 0 prefix rewrite `script* -> lib*`, 1 a rule that
    /// changes the last segment (`<name>_alias -> <name>`), 2 a whole-name rule (`short -> <dotted
    /// name of file 0>`)
    #[serde(default)]
    pub map_kind: u8,
    pub strict_require_path: bool,
    pub ops: Vec<MOp>,
    pub requires: Vec<String>,
}

const DIRS: &[&str] = &["", "a", "a/b", "src", "pkg/sub", "vendor", "vendor/dep"];
const LEAVES: &[&str] = &["x.lua", "init.lua", "util.lua", "y.lua", "x.lua.txt", "mod.lua"];

pub fn generate(seed: u64) -> ModSpec {
    let mut r = Rng::stream(seed, "workload");
    let lib_outside = r.chance(1, 3);
    let lib_inside = r.chance(1, 4);
    let extra_ext = r.chance(1, 3);
    let n = r.range(2, 8) as usize;
    let mut files: Vec<String> = Vec::new();
    while files.len() < n {
        let root = if lib_outside && r.chance(1, 3) { "ext" } else { "main" };
        let dir = *r.pick(DIRS);
        let leaf = *r.pick(LEAVES);
        if leaf.ends_with(".txt") && !extra_ext {
            continue;
        }
        let p = if dir.is_empty() { format!("{root}/{leaf}") } else { format!("{root}/{dir}/{leaf}") };
        if !files.contains(&p) {
            files.push(p);
        }
    }
    let require_pattern: Vec<String> = match r.below(5) {
        0 => vec!["?.lua".into(), "src/?.lua".into()],
        1 => vec!["?/init.lua".into()],
        2 => vec!["?.lua".into(), "?/init.lua".into(), "pkg/?.lua".into()],
        _ => vec![],
    };
    let mut ops = Vec::new();
    let mut live = vec![true; files.len()];
    let with_queries = r.chance(1, 2);
    for _ in 0..r.range(0, 8) {
        if with_queries && r.chance(1, 3) {
            ops.push(MOp::Query { analyse: r.chance(1, 2) });
            continue;
        }
        let f = r.usize_below(files.len());
        if live[f] {
            live[f] = false;
            ops.push(MOp::Remove { f, how: r.below(3) as u8 });
        } else {
            live[f] = true;
            ops.push(MOp::Add { f });
        }
    }
    // require strings: every derivable-looking name, suffixes, and a few misses
    let mut requires: BTreeSet<String> = BTreeSet::new();
    for f in &files {
        let rel = f.splitn(2, '/').nth(1).unwrap_or("");
        let stem = rel.trim_end_matches(".lua.txt").trim_end_matches(".lua");
        let dotted = stem.replace('/', ".");
        requires.insert(dotted.clone());
        if let Some(s) = dotted.strip_suffix(".init") {
            requires.insert(s.to_string());
        }
        let parts: Vec<&str> = dotted.split('.').collect();
        for k in 1..=parts.len().min(3) {
            requires.insert(parts[parts.len() - k..].join("."));
        }
        for prefix in ["src.", "pkg.", "vendor.", "vendor.dep."] {
            if let Some(s) = dotted.strip_prefix(prefix) {
                requires.insert(s.to_string());
            }
        }
        if dotted.starts_with("lib") {
            requires.insert(dotted.replacen("lib", "script", 1));
        }
    }
    let module_map = r.chance(2, 5);
    let map_kind = r.below(3) as u8;
    if module_map && map_kind == 1 {
        for q in requires.clone() {
            requires.insert(format!("{q}_alias"));
        }
    }
    if module_map && map_kind == 2 {
        requires.insert("short".into());
    }
    requires.insert("no.such.module".into());
    requires.insert("x".into());
    requires.insert("libx".into());
    ModSpec {
        seed,
        files,
        lib_outside,
        lib_inside,
        extra_ext,
        require_pattern,
        module_map,
        map_kind,
        strict_require_path: r.chance(1, 3),
        ops,
        requires: requires.into_iter().filter(|s| !s.is_empty()).collect(),
    }
}

fn base(seed: u64) -> PathBuf {
    PathBuf::from(format!("/verif-sim-ws/m{seed:016x}"))
}

fn emmyrc(spec: &ModSpec) -> Emmyrc {
    let mut v = json!({"runtime": {}, "workspace": {}, "strict": {"requirePath": spec.strict_require_path}});
    if spec.extra_ext {
        v["runtime"]["extensions"] = json!([".lua.txt"]);
    }
    if !spec.require_pattern.is_empty() {
        v["runtime"]["requirePattern"] = json!(spec.require_pattern);
    }
    if spec.module_map {
        v["workspace"]["moduleMap"] = match spec.map_kind {
            1 => json!([{"pattern": "^(.*)_alias$", "replace": "$1"}]),
            2 => json!([{"pattern": "^short$", "replace": short_target(spec)}]),
            _ => json!([{"pattern": "^script(.*)$", "replace": "lib$1"}]),
        };
    }
    serde_json::from_value(v).unwrap_or_default()
}

struct Roots {
    main: PathBuf,
    libs: Vec<PathBuf>,
}

fn roots(spec: &ModSpec) -> Roots {
    let b = base(spec.seed);
    let mut libs = Vec::new();
    if spec.lib_outside {
        libs.push(b.join("ext"));
    }
    if spec.lib_inside {
        libs.push(b.join("main/vendor"));
    }
    Roots { main: b.join("main"), libs }
}

/// The patterns the index uses, rebuilt independently from the configuration (longest first).
fn patterns(spec: &ModSpec) -> Vec<String> {
    let mut exts = vec![];
    if spec.extra_ext {
        exts.push("lua.txt".to_string());
    }
    exts.push("lua".to_string());
    let mut pats: Vec<String> = exts.iter().map(|e| format!("?.{e}")).collect();
    if spec.require_pattern.is_empty() {
        pats.extend(exts.iter().map(|e| format!("?/init.{e}")));
    } else {
        pats.extend(spec.require_pattern.iter().cloned());
    }
    pats.sort_by_key(|p| std::cmp::Reverse(p.len()));
    pats.dedup();
    pats
}

/// All module names under which a file is derivable: one per (root that contains it, pattern
/// that matches its root-relative path).
fn names_of(path: &std::path::Path, rts: &Roots, pats: &[String]) -> BTreeSet<String> {
    let mut out = BTreeSet::new();
    for root in std::iter::once(&rts.main).chain(rts.libs.iter()) {
        let Ok(rel) = path.strip_prefix(root) else { continue };
        let rel = rel.to_string_lossy().replace('\\', "/");
        for p in pats {
            let Some((pre, suf)) = p.split_once('?') else { continue };
            if rel.len() >= pre.len() + suf.len() && rel.starts_with(pre) && rel.ends_with(suf) {
                let cap = &rel[pre.len()..rel.len() - suf.len()];
                out.insert(cap.replace('/', "."));
            }
        }
    }
    out
}

/// Dotted root-relative stem of file 0: the target of the whole-name moduleMap rule.
fn short_target(spec: &ModSpec) -> String {
    let rel = spec.files[0].splitn(2, '/').nth(1).unwrap_or("");
    rel.trim_end_matches(".lua.txt").trim_end_matches(".lua").replace('/', ".")
}

fn map_name(spec: &ModSpec, r: &str) -> String {
    if spec.module_map {
        match spec.map_kind {
            1 => {
                if let Some(stem) = r.strip_suffix("_alias") {
                    return stem.to_string();
                }
            }
            2 => {
                if r == "short" {
                    return short_target(spec);
                }
            }
            _ => {
                if let Some(rest) = r.strip_prefix("script") {
                    return format!("lib{rest}");
                }
            }
        }
    }
    r.to_string()
}

/// Execute the history and answer every require string: name -> resolved file (spec path).
fn answers(spec: &ModSpec, with_queries: bool) -> (BTreeMap<String, Option<String>>, Vec<bool>, BTreeMap<String, String>) {
    let b = base(spec.seed);
    let rts = roots(spec);
    let mut analysis = EmmyLuaAnalysis::new();
    analysis.update_config(Arc::new(emmyrc(spec)));
    analysis.add_main_workspace(rts.main.clone());
    for l in &rts.libs {
        analysis.add_library_workspace(&WorkspaceFolder::new(l.clone(), true));
    }
    let text = |f: usize| format!("local M = {{}}\nM.id = {f}\nreturn M\n");
    let uri = |f: usize| file_path_to_uri(&b.join(&spec.files[f])).unwrap();
    let list: Vec<_> = (0..spec.files.len()).map(|f| (uri(f), Some(text(f)))).collect();
    analysis.update_files_by_uri(list);
    let mut live = vec![true; spec.files.len()];
    // a user file that requires every string: go-to-definition and module type
    let user = b.join("main/zz_user.lua");
    let mut src = String::new();
    for (i, r) in spec.requires.iter().enumerate() {
        src.push_str(&format!("local r{i} = require(\"{r}\")\n"));
    }
    for op in &spec.ops {
        match op {
            MOp::Add { f } => {
                if *f < live.len() {
                    analysis.update_file_by_uri(&uri(*f), Some(text(*f)));
                    live[*f] = true;
                }
            }
            MOp::Remove { f, how } => {
                if *f < live.len() && live[*f] {
                    match how % 3 {
                        0 => {
                            analysis.remove_file_by_uri(&uri(*f));
                        }
                        1 => {
                            analysis.update_file_by_uri(&uri(*f), None);
                        }
                        _ => {
                            analysis.update_files_by_uri(vec![(uri(*f), None)]);
                        }
                    }
                    live[*f] = false;
                }
            }
            MOp::Query { analyse } => {
                if with_queries {
                    for r in &spec.requires {
                        let _ = analysis.compilation.get_db().get_module_index().find_module(r);
                    }
                    if *analyse {
                        analysis.update_file_by_uri(&file_path_to_uri(&user).unwrap(), Some(src.clone()));
                    }
                }
            }
        }
    }
    let user_id = analysis.update_file_by_uri(&file_path_to_uri(&user).unwrap(), Some(src.clone()));
    let db = analysis.compilation.get_db();
    let rel_of = |fid: emmylua_code_analysis::FileId| -> String {
        db.get_vfs().get_file_path(&fid).and_then(|p| p.strip_prefix(&b).ok().map(|r| r.to_string_lossy().to_string())).unwrap_or_else(|| format!("<file#{}>", fid.id))
    };
    let mut ans = BTreeMap::new();
    for r in &spec.requires {
        ans.insert(r.clone(), db.get_module_index().find_module(r).map(|m| rel_of(m.file_id)));
    }
    // definition target of each require string token in the user file
    let mut defs: BTreeMap<String, String> = BTreeMap::new();
    if let Some(uid) = user_id {
        if let Some(model) = analysis.compilation.get_semantic_model(uid) {
            use emmylua_parser::{LuaAstNode, LuaTokenKind};
            use rowan::NodeOrToken;
            for el in model.get_root().syntax().descendants_with_tokens() {
                let NodeOrToken::Token(tok) = el else { continue };
                let kind: LuaTokenKind = tok.kind().into();
                if kind == LuaTokenKind::TkName && tok.text().starts_with('r') && tok.text()[1..].chars().all(|c| c.is_ascii_digit()) && tok.text().len() > 1 {
                    // the inferred type of `local rN = require("...")`: every module exports a table
                    // whose field `id` is the index of its file
                    if let Ok(i) = tok.text()[1..].parse::<usize>() {
                        if let (Some(info), Some(rname)) = (model.get_semantic_info(NodeOrToken::Token(tok.clone())), spec.requires.get(i)) {
                            let ty = emmylua_code_analysis::humanize_type(db, &info.typ, emmylua_code_analysis::RenderLevel::Detailed);
                            defs.insert(format!("type:{rname}"), ty.replace('\n', " "));
                        }
                    }
                    continue;
                }
                if kind != LuaTokenKind::TkString {
                    continue;
                }
                let name = tok.text().trim_matches('"').to_string();
                if let Some(info) = model.get_semantic_info(NodeOrToken::Token(tok.clone())) {
                    if let Some(d) = info.semantic_decl {
                        let fid = match d {
                            emmylua_code_analysis::LuaSemanticDeclId::LuaDecl(id) => Some(id.file_id),
                            emmylua_code_analysis::LuaSemanticDeclId::Member(id) => Some(id.file_id),
                            emmylua_code_analysis::LuaSemanticDeclId::Signature(id) => Some(id.get_file_id()),
                            _ => None,
                        };
                        if let Some(fid) = fid {
                            defs.insert(name, rel_of(fid));
                        }
                    }
                }
            }
        }
    }
    (ans, live, defs)
}

pub fn run(spec_v: &Value, verbose: bool) -> CaseReport {
    let Ok(spec) = serde_json::from_value::<ModSpec>(spec_v.clone()) else {
        return CaseReport { error: Some("bad spec".into()), ..Default::default() };
    };
    let mut violations: Vec<(String, String)> = Vec::new();
    let mut counters: BTreeMap<String, u64> = BTreeMap::new();
    let k = 4usize;
    let mut outs = Vec::new();
    for i in 0..k {
        let hs = simcore::rng::derive(spec.seed, &format!("sweep{i}"));
        let salt = if i >= 2 { simcore::rng::derive(spec.seed, &format!("heap{i}")) | 1 } else { 0 };
        let hs = if i >= 2 { simcore::rng::derive(spec.seed, "sweep0") } else { hs };
        let s = spec.clone();
        match simcore::on_fresh_thread_salted(hs, salt, 64, move || answers(&s, true)) {
            Ok(a) => outs.push(a),
            Err(e) => {
                return CaseReport {
                    violations: vec![("C33:panicked".into(), e.chars().take(300).collect())],
                    digest: "panic".into(),
                    nontrivial: true,
                    ..Default::default()
                };
            }
        }
    }
    counters.insert("hash_and_heap_points_swept".into(), k as u64);
    let (ans, live, defs) = outs[0].clone();
    for (i, o) in outs.iter().enumerate().skip(1) {
        if o.0 != ans {
            let d: Vec<String> = ans.iter().filter(|(r, v)| o.0.get(*r) != Some(*v)).map(|(r, v)| format!("{r}: {v:?} vs {:?}", o.0.get(r))).take(3).collect();
            violations.push(("C33:nondeterministic-resolution".into(), format!("sweep point 0 vs {i}: {}", d.join("; "))));
            break;
        }
    }
    // ---- lookups are read-only: the same history without its Query steps ends with the same answers
    if spec.ops.iter().any(|o| matches!(o, MOp::Query { .. })) {
        let hs = simcore::rng::derive(spec.seed, "sweep0");
        let s = spec.clone();
        if let Ok(quiet) = simcore::on_fresh_thread_salted(hs, 0, 64, move || answers(&s, false)) {
            *counters.entry("histories_with_mid_history_lookups".into()).or_insert(0) += 1;
            if quiet.0 != ans || quiet.2 != defs {
                let mut d: Vec<String> = ans.iter().filter(|(r, v)| quiet.0.get(*r) != Some(*v)).map(|(r, v)| format!("require(\"{r}\"): {v:?} after earlier lookups, {:?} without them", quiet.0.get(r).cloned().flatten())).take(3).collect();
                if d.is_empty() {
                    d = defs.iter().filter(|(k, v)| quiet.2.get(*k) != Some(*v)).map(|(k, v)| format!("{k}: {v} after earlier lookups, {:?} without them", quiet.2.get(k))).take(3).collect();
                }
                violations.push(("C33:resolution-depends-on-earlier-lookups".into(), d.join("; ")));
            }
        }
    }
    // ---- reference resolver
    let b = base(spec.seed);
    let rts = roots(&spec);
    let pats = patterns(&spec);
    let names: Vec<BTreeSet<String>> = spec.files.iter().map(|f| names_of(&b.join(f), &rts, &pats)).collect();
    // registered-name candidates additionally include the moduleMap rewrite of every name
    let cand_names = |f: usize| -> BTreeSet<String> {
        let mut s = names[f].clone();
        for n in names[f].iter() {
            s.insert(map_name(&spec, n));
        }
        s
    };
    for (r, got) in &ans {
        let mapped = map_name(&spec, r);
        let exact: Vec<usize> = (0..spec.files.len()).filter(|f| live[*f] && (cand_names(*f).contains(r))).collect();
        let exact_mapped: Vec<usize> = (0..spec.files.len()).filter(|f| live[*f] && cand_names(*f).contains(&mapped)).collect();
        let fuzzy: Vec<usize> = (0..spec.files.len())
            .filter(|f| live[*f] && cand_names(*f).iter().any(|n| n == r || n.ends_with(&format!(".{r}")) || n == &mapped || n.ends_with(&format!(".{mapped}"))))
            .collect();
        // single-derivation exact candidates: the file has exactly one derivable name
        let single_exact: Vec<usize> = exact.iter().copied().filter(|f| names[*f].len() == 1 && !spec.module_map).collect();
        // moduleMap completeness: nothing is derivable under the raw string, and the rewritten
        // string is the only derivable name of a live file -> the require resolves to a file
        // registered under the rewritten name (an exact match of the rewrite beats any fuzzy match)
        if mapped != *r {
            *counters.entry("requires_rewritten_by_module_map".into()).or_insert(0) += 1;
            let raw_any = (0..spec.files.len()).any(|f| live[f] && names[f].contains(r));
            let mapped_single: Vec<usize> = (0..spec.files.len()).filter(|f| live[*f] && names[*f].len() == 1 && names[*f].contains(&mapped)).collect();
            if !raw_any && !mapped_single.is_empty() {
                let ok = got.as_ref().and_then(|p| spec.files.iter().position(|x| x == p)).map(|fi| live[fi] && names[fi].contains(&mapped)).unwrap_or(false);
                if !ok {
                    violations.push((
                        "C33:module-map-rewrite-not-applied".into(),
                        format!("require(\"{r}\") rewrites to \"{mapped}\", which selects {} exactly, but resolves to {got:?}", spec.files[mapped_single[0]]),
                    ));
                }
            }
        }
        match got {
            Some(path) => {
                let Some(fi) = spec.files.iter().position(|p| p == path) else {
                    if path != "main/zz_user.lua" {
                        violations.push(("C33:resolves-to-unknown-file".into(), format!("require(\"{r}\") -> {path}")));
                    }
                    continue;
                };
                if !live[fi] {
                    violations.push(("C33:resolves-to-removed-file".into(), format!("require(\"{r}\") -> {path}, which was removed")));
                } else if exact.contains(&fi) || exact_mapped.contains(&fi) {
                    *counters.entry("resolved.exact".into()).or_insert(0) += 1;
                } else if fuzzy.contains(&fi) {
                    if spec.strict_require_path {
                        violations.push(("C33:fuzzy-match-under-strict-require-path".into(), format!("require(\"{r}\") -> {path} (names {:?})", names[fi])));
                    } else if !single_exact.is_empty() {
                        violations.push((
                            "C33:fuzzy-preferred-over-exact".into(),
                            format!("require(\"{r}\") -> {path} (names {:?}) although {} matches exactly", names[fi], spec.files[single_exact[0]]),
                        ));
                    } else {
                        // among fuzzy candidates the one with the fewest leading segments wins
                        let lead = |f: usize| -> usize {
                            cand_names(f)
                                .iter()
                                .filter_map(|n| {
                                    [r.as_str(), mapped.as_str()].iter().filter_map(|q| {
                                        if n == q { Some(0) } else { n.strip_suffix(&format!(".{q}")).map(|pre| pre.split('.').filter(|s| !s.is_empty()).count()) }
                                    }).min()
                                })
                                .min()
                                .unwrap_or(usize::MAX)
                        };
                        // judged only against files that are derivable in exactly one way (the index
                        // registers one name per file; which one is not settled by the statement)
                        let best_single = fuzzy.iter().copied().filter(|f| names[*f].len() == 1 && !spec.module_map).map(lead).min();
                        if names[fi].len() == 1 && !spec.module_map && best_single.map(|b| lead(fi) > b).unwrap_or(false) {
                            violations.push((
                                "C33:fuzzy-match-not-the-closest".into(),
                                format!("require(\"{r}\") -> {path} with {} leading segments although a candidate with {} exists", lead(fi), best_single.unwrap_or(0)),
                            ));
                        } else {
                            *counters.entry("resolved.fuzzy".into()).or_insert(0) += 1;
                        }
                    }
                } else {
                    violations.push((
                        "C33:resolves-to-non-candidate".into(),
                        format!("require(\"{r}\") -> {path} whose derivable module names are {:?} (patterns {pats:?})", names[fi]),
                    ));
                }
            }
            None => {
                if !single_exact.is_empty() {
                    violations.push((
                        "C33:unresolved-although-pattern-selects-a-file".into(),
                        format!("require(\"{r}\") -> none, but {} is derivable only as {:?} (patterns {pats:?})", spec.files[single_exact[0]], names[single_exact[0]]),
                    ));
                } else {
                    *counters.entry("resolved.none".into()).or_insert(0) += 1;
                }
            }
        }
        // the inferred type of `require(r)` is the export of the resolved module (field id = file index)
        if let Some(ty) = defs.get(&format!("type:{r}")) {
            let want = got.as_ref().and_then(|p| spec.files.iter().position(|x| x == p));
            let mentions = |f: usize| ty.contains(&format!("id: integer = {f}")) || ty.contains(&format!("id = {f}"));
            match want {
                Some(f) => {
                    if !mentions(f) && (0..spec.files.len()).any(|o| o != f && mentions(o)) {
                        violations.push(("C33:module-type-disagrees-with-resolution".into(), format!("require(\"{r}\") resolves to {} but its inferred type is {ty}", spec.files[f])));
                    } else if mentions(f) {
                        *counters.entry("module_type_agrees".into()).or_insert(0) += 1;
                    }
                }
                None => {
                    if (0..spec.files.len()).any(|o| mentions(o)) {
                        violations.push(("C33:module-type-for-unresolved-require".into(), format!("require(\"{r}\") is unresolved but its inferred type is {ty}")));
                    }
                }
            }
        }
        // go-to-definition on the string agrees with the resolution
        if let Some(dpath) = defs.get(r) {
            if got.as_ref() != Some(dpath) {
                violations.push(("C33:definition-disagrees-with-resolution".into(), format!("require(\"{r}\"): find_module -> {got:?}, definition of the string -> {dpath}")));
            }
        }
    }
    let mut seen = BTreeSet::new();
    violations.retain(|x| seen.insert(x.0.clone()));
    if verbose {
        println!("spec: {}", serde_json::to_string_pretty(&spec).unwrap_or_default());
        println!("patterns: {pats:?}");
        for (i, f) in spec.files.iter().enumerate() {
            println!("file {f} live={} names={:?}", live[i], names[i]);
        }
        for (r, a) in &ans {
            println!("require {r} -> {a:?} (definition {:?})", defs.get(r));
        }
    }
    let digest = simcore::digest_str(&format!("{ans:?}{defs:?}"));
    CaseReport {
        violations,
        digest: digest.clone(),
        nontrivial: spec.files.len() >= 2,
        final_state: digest,
        counters,
        sample: json!({"files": spec.files, "lib_outside": spec.lib_outside, "lib_inside": spec.lib_inside, "extra_ext": spec.extra_ext, "require_pattern": spec.require_pattern, "module_map": spec.module_map, "map_kind": spec.map_kind, "strict_require_path": spec.strict_require_path, "ops": spec.ops, "requires": spec.requires.len()}),
        error: None,
    }
}

pub fn shrink(spec_v: &Value) -> Vec<Value> {
    let Ok(spec) = serde_json::from_value::<ModSpec>(spec_v.clone()) else { return vec![] };
    let mut out = Vec::new();
    for i in 0..spec.ops.len() {
        let mut c = spec.clone();
        c.ops.remove(i);
        out.push(c);
    }
    if spec.files.len() > 1 {
        for f in 0..spec.files.len() {
            let mut c = spec.clone();
            c.files.remove(f);
            c.ops = spec
                .ops
                .iter()
                .filter_map(|o| match o {
                    MOp::Add { f: x } if *x == f => None,
                    MOp::Remove { f: x, .. } if *x == f => None,
                    MOp::Add { f: x } => Some(MOp::Add { f: if *x > f { x - 1 } else { *x } }),
                    MOp::Remove { f: x, how } => Some(MOp::Remove { f: if *x > f { x - 1 } else { *x }, how: *how }),
                    MOp::Query { analyse } => Some(MOp::Query { analyse: *analyse }),
                })
                .collect();
            out.push(c);
        }
    }
    if spec.requires.len() > 1 {
        let mut a = spec.clone();
        a.requires.truncate(spec.requires.len() / 2);
        out.push(a);
        let mut b = spec.clone();
        b.requires = spec.requires[spec.requires.len() / 2..].to_vec();
        out.push(b);
    }
    out.into_iter().filter_map(|s| serde_json::to_value(s).ok()).collect()
}
