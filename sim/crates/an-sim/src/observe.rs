//! Observation of an analysis through its public query API only, keyed by path (never by file
//! id), as canonical text lines "<category> <subject> :: <value>". Categories are the units the
//! oracles name in violation classes.

use std::collections::BTreeMap;
use std::path::Path;

use emmylua_code_analysis::{
    DbIndex, EmmyLuaAnalysis, FileId, GlobalId, LuaMemberKey, LuaMemberOwner, LuaOperatorMetaMethod, LuaOperatorOwner, LuaSemanticDeclId,
    LuaType, LuaTypeOwner, RenderLevel, humanize_type,
};

const META_METHODS: &[(&str, LuaOperatorMetaMethod)] = &[
    ("add", LuaOperatorMetaMethod::Add),
    ("sub", LuaOperatorMetaMethod::Sub),
    ("mul", LuaOperatorMetaMethod::Mul),
    ("div", LuaOperatorMetaMethod::Div),
    ("unm", LuaOperatorMetaMethod::Unm),
    ("concat", LuaOperatorMetaMethod::Concat),
    ("len", LuaOperatorMetaMethod::Len),
    ("eq", LuaOperatorMetaMethod::Eq),
    ("lt", LuaOperatorMetaMethod::Lt),
    ("index", LuaOperatorMetaMethod::Index),
    ("call", LuaOperatorMetaMethod::Call),
];
use emmylua_parser::{LuaAstNode, LuaSyntaxKind, LuaTokenKind};
use rowan::NodeOrToken;
use tokio_util::sync::CancellationToken;

pub struct Obs {
    pub lines: Vec<String>,
    /// file ids found in query results that do not name a live file
    pub dangling: Vec<String>,
}

pub fn rel_of(db: &DbIndex, root: &Path, fid: FileId) -> String {
    match db.get_vfs().get_file_path(&fid) {
        Some(p) => p.strip_prefix(root).map(|r| r.to_string_lossy().to_string()).unwrap_or_else(|_| p.to_string_lossy().to_string()),
        None => format!("<file#{}>", fid.id),
    }
}

/// Canonical rendering of a type: unions and table-field lists are sorted (the quantifier of
/// C11/C08 allows the listing order of members in rendered types to vary, nothing else).
pub fn canon_type(s: &str) -> String {
    // split `s` at top-level occurrences of `sep` (outside any bracket pair)
    fn split_top(s: &str, sep: char) -> Vec<String> {
        let mut parts = Vec::new();
        let mut depth = 0i32;
        let mut cur = String::new();
        let mut prev = '\0';
        for ch in s.chars() {
            match ch {
                '(' | '{' | '[' | '<' => depth += 1,
                ')' | '}' | ']' => depth -= 1,
                '>' if prev != '-' && prev != '=' => depth -= 1,
                _ => {}
            }
            if ch == sep && depth == 0 {
                parts.push(cur.trim().to_string());
                cur = String::new();
            } else {
                cur.push(ch);
            }
            prev = ch;
        }
        parts.push(cur.trim().to_string());
        parts
    }
    // canonicalise the inside of every bracket group first, then the top level
    fn groups(s: &str) -> String {
        let chars: Vec<char> = s.chars().collect();
        let mut out = String::new();
        let mut i = 0;
        while i < chars.len() {
            let ch = chars[i];
            let close = match ch {
                '(' => Some(')'),
                '{' => Some('}'),
                '[' => Some(']'),
                _ => None,
            };
            if let Some(close) = close {
                // find the matching close
                let mut depth = 0i32;
                let mut j = i;
                while j < chars.len() {
                    if chars[j] == ch {
                        depth += 1;
                    } else if chars[j] == close {
                        depth -= 1;
                        if depth == 0 {
                            break;
                        }
                    }
                    j += 1;
                }
                if j >= chars.len() {
                    out.extend(chars[i..].iter());
                    return out;
                }
                let inner: String = chars[i + 1..j].iter().collect();
                let inner = if ch == '{' {
                    let mut fs: Vec<String> = split_top(&inner, ',').iter().filter(|p| !p.is_empty()).map(|p| canon(p)).collect();
                    fs.sort();
                    fs.join(", ")
                } else {
                    split_top(&inner, ',').iter().map(|p| canon(p)).collect::<Vec<_>>().join(", ")
                };
                out.push(ch);
                out.push_str(&inner);
                out.push(close);
                i = j + 1;
            } else {
                out.push(ch);
                i += 1;
            }
        }
        out
    }
    fn canon(s: &str) -> String {
        let s = groups(s.trim());
        let parts = split_top(&s, '|');
        if parts.len() > 1 {
            let mut ps: Vec<String> = parts;
            ps.sort();
            ps.dedup();
            return ps.join("|");
        }
        s
    }
    canon(&s.replace('\n', " "))
}

/// Diagnostic messages quote rendered types in backticks: canonicalise each quoted segment the
/// same way (the listing order of members in rendered types may vary, nothing else).
fn canon_backticks(msg: &str) -> String {
    let parts: Vec<&str> = msg.split('`').collect();
    if parts.len() < 3 {
        return msg.to_string();
    }
    let mut out = String::new();
    for (i, p) in parts.iter().enumerate() {
        if i > 0 {
            out.push('`');
        }
        if i % 2 == 1 && i + 1 < parts.len() {
            out.push_str(&canon_type(p));
        } else {
            out.push_str(p);
        }
    }
    out
}

fn render(db: &DbIndex, t: &LuaType) -> String {
    canon_type(&humanize_type(db, t, RenderLevel::Detailed))
}

fn decl_loc(db: &DbIndex, root: &Path, d: &LuaSemanticDeclId, dangling: &mut Vec<String>) -> String {
    let mut chk = |fid: FileId, what: &str| {
        if db.get_vfs().get_file_content(&fid).is_none() {
            dangling.push(format!("{what} in {}", rel_of(db, root, fid)));
        }
    };
    match d {
        LuaSemanticDeclId::LuaDecl(id) => {
            chk(id.file_id, "declaration");
            format!("decl@{}:{}", rel_of(db, root, id.file_id), u32::from(id.position))
        }
        LuaSemanticDeclId::Member(id) => {
            chk(id.file_id, "member");
            format!("member@{}:{}", rel_of(db, root, id.file_id), u32::from(id.get_position()))
        }
        LuaSemanticDeclId::TypeDecl(id) => format!("type:{}", id.get_name()),
        LuaSemanticDeclId::Signature(id) => {
            chk(id.get_file_id(), "signature");
            format!("sig@{}:{}", rel_of(db, root, id.get_file_id()), u32::from(id.get_position()))
        }
    }
}

pub struct ObserveOpts {
    pub diagnostics: bool,
    pub tokens: bool,
    pub requires: Vec<String>,
}

impl Default for ObserveOpts {
    fn default() -> Self {
        ObserveOpts { diagnostics: true, tokens: true, requires: Vec::new() }
    }
}

/// Dump everything observable. `files` are the (rel path) of the files expected to be live.
pub fn observe(analysis: &EmmyLuaAnalysis, root: &Path, opts: &ObserveOpts) -> Obs {
    let db = analysis.compilation.get_db();
    let mut lines: Vec<String> = Vec::new();
    let mut dangling: Vec<String> = Vec::new();
    let mut fids: Vec<(String, FileId)> =
        db.get_vfs().get_all_local_file_ids().into_iter().map(|f| (rel_of(db, root, f), f)).collect();
    fids.sort();

    for (rel, fid) in &fids {
        // ---- diagnostics
        if opts.diagnostics {
            if let Some(diags) = analysis.diagnose_file(*fid, CancellationToken::new()) {
                let mut ds: Vec<String> = diags
                    .iter()
                    .map(|d| {
                        let code = match &d.code {
                            Some(lsp_types::NumberOrString::String(s)) => s.clone(),
                            Some(lsp_types::NumberOrString::Number(n)) => n.to_string(),
                            None => String::new(),
                        };
                        let mut related = String::new();
                        if let Some(ri) = &d.related_information {
                            for r in ri {
                                related.push_str(&format!(" related={}", r.location.uri.as_str().rsplit('/').next().unwrap_or("")));
                            }
                        }
                        format!(
                            "diag {rel}@{}:{}-{}:{} :: {code} sev={:?} {}{related}",
                            d.range.start.line,
                            d.range.start.character,
                            d.range.end.line,
                            d.range.end.character,
                            d.severity.map(|s| format!("{s:?}")),
                            canon_backticks(&d.message.replace('\n', " "))
                        )
                    })
                    .collect();
                ds.sort();
                lines.extend(ds);
            }
        }
        // ---- per-token semantic info
        if opts.tokens {
            if let Some(model) = analysis.compilation.get_semantic_model(*fid) {
                let root_node = model.get_root().syntax().clone();
                for el in root_node.descendants_with_tokens() {
                    let NodeOrToken::Token(tok) = el else { continue };
                    let kind: LuaTokenKind = tok.kind().into();
                    if !matches!(kind, LuaTokenKind::TkName | LuaTokenKind::TkString) {
                        continue;
                    }
                    // skip tokens inside comments except doc names (cheap and stable enough)
                    let in_comment = tok.parent_ancestors().any(|p| {
                        let k: LuaSyntaxKind = p.kind().into();
                        k == LuaSyntaxKind::Comment
                    });
                    let start = u32::from(tok.text_range().start());
                    let text: String = tok.text().chars().take(40).collect();
                    let info = model.get_semantic_info(NodeOrToken::Token(tok.clone()));
                    match info {
                        Some(info) => {
                            let decl = info
                                .semantic_decl
                                .as_ref()
                                .map(|d| decl_loc(db, root, d, &mut dangling))
                                .unwrap_or_else(|| "-".into());
                            let cat = if in_comment { "doctok" } else { "tok" };
                            lines.push(format!("{cat} {rel}@{start} {text} :: type={} decl={decl}", render(db, &info.typ)));
                            // hover documentation of what the token refers to
                            if let Some(d) = &info.semantic_decl {
                                if let Some(p) = db.get_property_index().get_property(d) {
                                    if let Some(desc) = &p.description {
                                        lines.push(format!("hoverdoc {rel}@{start} {text} :: {}", desc.replace('\n', " ")));
                                    }
                                    let vis = format!("{:?}", p.visibility);
                                    if vis != "Public" || p.deprecated.is_some() {
                                        lines.push(format!(
                                            "propflags {rel}@{start} {text} :: vis={vis} deprecated={}",
                                            p.deprecated.as_ref().map(|d| format!("{d:?}")).unwrap_or_else(|| "-".into())
                                        ));
                                    }
                                }
                            }
                        }
                        None => {
                            if !in_comment {
                                lines.push(format!("tok {rel}@{start} {text} :: none"));
                            }
                        }
                    }
                }
            }
            // ---- table literals: inferred type and the members registered under the literal itself
            // (fields of a literal annotated as a class / enum are re-homed to the type, the
            // literal's own member list must follow every edit of its file)
            if let Some(model) = analysis.compilation.get_semantic_model(*fid) {
                for te in model.get_root().descendants::<emmylua_parser::LuaTableExpr>() {
                    let range = te.get_range();
                    let start = u32::from(range.start());
                    if let Ok(t) = model.infer_expr(emmylua_parser::LuaExpr::TableExpr(te.clone())) {
                        lines.push(format!("texpr {rel}@{start} :: {}", render(db, &t)));
                        if let Some(infos) = model.get_member_infos(&t) {
                            let mut ms: Vec<String> = infos
                                .iter()
                                .map(|i| format!("tmember {rel}@{start}.{} :: {}", i.key.to_path(), render(db, &i.typ)))
                                .collect();
                            ms.sort();
                            lines.extend(ms);
                        }
                    }
                    let owner = LuaMemberOwner::Element(emmylua_code_analysis::InFiled::new(*fid, range));
                    if let Some(members) = db.get_member_index().get_members(&owner) {
                        let mut ms: Vec<String> = members
                            .iter()
                            .map(|m| {
                                if db.get_vfs().get_file_content(&m.get_file_id()).is_none() {
                                    dangling.push(format!("table member .{} in {}", m.get_key().to_path(), rel_of(db, root, m.get_file_id())));
                                }
                                format!("elmember {rel}@{start}.{} :: at {}:{}", m.get_key().to_path(), rel_of(db, root, m.get_file_id()), u32::from(m.get_range().start()))
                            })
                            .collect();
                        ms.sort();
                        lines.extend(ms);
                    }
                }
            }
            // ---- references of every local declaration of the file
            if let Some(map) = db.get_reference_index().get_decl_references_map(fid) {
                let mut rs: Vec<String> = map
                    .iter()
                    .map(|(decl, refs)| {
                        let mut cells: Vec<String> = refs
                            .cells
                            .iter()
                            .map(|c| format!("{}{}", u32::from(c.range.start()), if c.is_write { "w" } else { "" }))
                            .collect();
                        cells.sort();
                        format!("refs {rel}@{} :: [{}]", u32::from(decl.position), cells.join(","))
                    })
                    .collect();
                rs.sort();
                lines.extend(rs);
            }
        }
        // ---- module registration of the file
        if let Some(m) = db.get_module_index().get_module(*fid) {
            let export = m.export_type.as_ref().map(|t| render(db, t)).unwrap_or_else(|| "-".into());
            lines.push(format!(
                "module {rel} :: name={} ws={} meta={} export={export}",
                m.full_module_name, m.workspace_id.id, m.is_meta
            ));
        } else {
            lines.push(format!("module {rel} :: none"));
        }
        // ---- files this file requires
        if let Some(deps) = db.get_file_dependencies_index().get_required_files(fid) {
            let mut ds: Vec<String> = deps
                .iter()
                .map(|d| {
                    // The edge belongs to the (live) requiring file and is only refreshed when that
                    // file is re-analysed: a stale derived fact of a dependent, not a query result
                    // that names the removed file, so it is rendered but not judged as dangling.
                    if db.get_vfs().get_file_content(d).is_none() { "<removed>".to_string() } else { rel_of(db, root, *d) }
                })
                .collect();
            ds.sort();
            if !ds.is_empty() {
                lines.push(format!("deps {rel} :: [{}]", ds.join(",")));
            }
        }
        if let Some(ns) = db.get_type_index().get_file_namespace(fid) {
            lines.push(format!("namespace {rel} :: {ns}"));
        }
        if let Some(us) = db.get_type_index().get_file_using_namespace(fid) {
            lines.push(format!("using {rel} :: {}", us.join(",")));
        }
    }

    // ---- type declarations with locations, descriptions, supers, members
    let mut tys: Vec<String> = Vec::new();
    for decl in db.get_type_index().get_all_types() {
        let id = decl.get_id();
        let mut locs: Vec<String> = decl
            .get_locations()
            .iter()
            .map(|l| {
                if db.get_vfs().get_file_content(&l.file_id).is_none() {
                    dangling.push(format!("type {} location in {}", decl.get_full_name(), rel_of(db, root, l.file_id)));
                }
                format!("{}:{}", rel_of(db, root, l.file_id), u32::from(l.range.start()))
            })
            .collect();
        locs.sort();
        // std / library-less runs have no std types; keep everything that is declared in a file
        let kind = if decl.is_class() {
            "class"
        } else if decl.is_enum() {
            "enum"
        } else if decl.is_alias() {
            "alias"
        } else {
            "type"
        };
        let desc = db
            .get_property_index()
            .get_property(&LuaSemanticDeclId::TypeDecl(id.clone()))
            .and_then(|p| p.description.as_ref().map(|d| d.replace('\n', " ")))
            .unwrap_or_default();
        tys.push(format!("typedecl {} :: {kind} at [{}]", decl.get_full_name(), locs.join(",")));
        tys.push(format!("typedesc {} :: {desc}", decl.get_full_name()));
        if let Some(sup) = db.get_type_index().get_super_types(&id) {
            let mut ss: Vec<String> = sup.iter().map(|t| render(db, t)).collect();
            ss.sort();
            tys.push(format!("typesupers {} :: [{}]", decl.get_full_name(), ss.join(",")));
        }
        if let Some(alias) = decl.get_alias_ref() {
            tys.push(format!("typealias {} :: {}", decl.get_full_name(), render(db, alias)));
        }
        if let Some(gp) = db.get_type_index().get_generic_params(&id) {
            let ps: Vec<String> = gp
                .iter()
                .map(|g| format!("{}{}", g.name, g.constraint.as_ref().map(|c| format!(":{}", render(db, c))).unwrap_or_default()))
                .collect();
            tys.push(format!("typegenerics {} :: <{}>", decl.get_full_name(), ps.join(",")));
        }
        {
            let mut subs: Vec<String> = db.get_type_index().get_sub_types(&id).iter().map(|d| d.get_full_name().to_string()).collect();
            subs.sort();
            if !subs.is_empty() {
                tys.push(format!("typesubs {} :: [{}]", decl.get_full_name(), subs.join(",")));
            }
        }
        for (mname, mm) in META_METHODS {
            if let Some(ops) = db.get_operator_index().get_operators(&LuaOperatorOwner::Type(id.clone()), *mm) {
                let mut os: Vec<String> = ops
                    .iter()
                    .filter_map(|oid| db.get_operator_index().get_operator(oid))
                    .map(|op| {
                        if db.get_vfs().get_file_content(&op.get_file_id()).is_none() {
                            dangling.push(format!("operator {mname} of {} in {}", decl.get_full_name(), rel_of(db, root, op.get_file_id())));
                        }
                        format!(
                            "{}@{}:{}",
                            render(db, &op.get_operator_func(db)),
                            rel_of(db, root, op.get_file_id()),
                            u32::from(op.get_range().start())
                        )
                    })
                    .collect();
                os.sort();
                tys.push(format!("operator {}.{mname} :: [{}]", decl.get_full_name(), os.join(" ; ")));
            }
        }
        if let Some(trefs) = db.get_reference_index().get_type_references(&id) {
            let mut rs: Vec<String> = trefs
                .iter()
                .map(|r| {
                    if db.get_vfs().get_file_content(&r.file_id).is_none() {
                        dangling.push(format!("type-reference to {} in {}", decl.get_full_name(), rel_of(db, root, r.file_id)));
                    }
                    format!("{}:{}", rel_of(db, root, r.file_id), u32::from(r.value.start()))
                })
                .collect();
            rs.sort();
            if !rs.is_empty() {
                tys.push(format!("trefs {} :: [{}]", decl.get_full_name(), rs.join(",")));
            }
        }
        let owner = LuaMemberOwner::Type(id.clone());
        if let Some(members) = db.get_member_index().get_members(&owner) {
            let mut ms: Vec<String> = members
                .iter()
                .map(|m| {
                    if db.get_vfs().get_file_content(&m.get_file_id()).is_none() {
                        dangling.push(format!("member {}.{} in {}", decl.get_full_name(), m.get_key().to_path(), rel_of(db, root, m.get_file_id())));
                    }
                    let ty = db
                        .get_type_index()
                        .get_type_cache(&LuaTypeOwner::Member(m.get_id()))
                        .map(|c| render(db, c.as_type()))
                        .unwrap_or_else(|| "?".into());
                    format!(
                        "member {}.{} :: {ty} at {}:{}",
                        decl.get_full_name(),
                        m.get_key().to_path(),
                        rel_of(db, root, m.get_file_id()),
                        u32::from(m.get_range().start())
                    )
                })
                .collect();
            ms.sort();
            tys.extend(ms);
        }
    }
    tys.sort();
    lines.extend(tys);

    // ---- globals
    let mut gs: Vec<String> = Vec::new();
    for id in db.get_global_index().get_all_global_decl_ids() {
        if db.get_vfs().get_file_content(&id.file_id).is_none() {
            dangling.push(format!("global declaration in {}", rel_of(db, root, id.file_id)));
        }
        let name = db.get_decl_index().get_decl(&id).map(|d| d.get_name().to_string()).unwrap_or_else(|| "<missing decl>".into());
        let ty = db.get_type_index().get_type_cache(&LuaTypeOwner::Decl(id)).map(|c| render(db, c.as_type())).unwrap_or_else(|| "?".into());
        gs.push(format!("global {name}@{}:{} :: {ty}", rel_of(db, root, id.file_id), u32::from(id.position)));
    }
    gs.sort();
    lines.extend(gs);
    // ---- references to every global name, across files
    let mut names: Vec<String> = db
        .get_global_index()
        .get_all_global_decl_ids()
        .iter()
        .filter_map(|id| db.get_decl_index().get_decl(id).map(|d| d.get_name().to_string()))
        .collect();
    names.sort();
    names.dedup();
    for name in names {
        if let Some(refs) = db.get_reference_index().get_global_references(&name) {
            let mut rs: Vec<String> = refs
                .iter()
                .map(|r| {
                    if db.get_vfs().get_file_content(&r.file_id).is_none() {
                        dangling.push(format!("global-reference to {name} in {}", rel_of(db, root, r.file_id)));
                    }
                    format!("{}:{}", rel_of(db, root, r.file_id), u32::from(r.value.get_range().start()))
                })
                .collect();
            rs.sort();
            lines.push(format!("grefs {name} :: [{}]", rs.join(",")));
        }
    }

    // ---- members hanging off global paths (`Conf.level = 1` on a global table)
    {
        let mut gnames: Vec<String> = db
            .get_global_index()
            .get_all_global_decl_ids()
            .iter()
            .filter_map(|id| db.get_decl_index().get_decl(id).map(|d| d.get_name().to_string()))
            .collect();
        gnames.sort();
        gnames.dedup();
        let mut keys: std::collections::BTreeSet<String> = std::collections::BTreeSet::new();
        for g in &gnames {
            let owner = LuaMemberOwner::GlobalPath(GlobalId::new(g));
            if let Some(members) = db.get_member_index().get_members(&owner) {
                let mut ms: Vec<String> = members
                    .iter()
                    .map(|m| {
                        if db.get_vfs().get_file_content(&m.get_file_id()).is_none() {
                            dangling.push(format!("member {g}.{} in {}", m.get_key().to_path(), rel_of(db, root, m.get_file_id())));
                        }
                        keys.insert(m.get_key().to_path());
                        let ty = db
                            .get_type_index()
                            .get_type_cache(&LuaTypeOwner::Member(m.get_id()))
                            .map(|c| render(db, c.as_type()))
                            .unwrap_or_else(|| "?".into());
                        format!("gmember {g}.{} :: {ty} at {}:{}", m.get_key().to_path(), rel_of(db, root, m.get_file_id()), u32::from(m.get_range().start()))
                    })
                    .collect();
                ms.sort();
                lines.extend(ms);
            }
        }
        // ---- index references (`x.key` expressions) of every member key seen on types / globals
        for decl in db.get_type_index().get_all_types() {
            if let Some(members) = db.get_member_index().get_members(&LuaMemberOwner::Type(decl.get_id())) {
                for m in members {
                    keys.insert(m.get_key().to_path());
                }
            }
        }
        for k in keys {
            let key = LuaMemberKey::Name(k.as_str().into());
            if let Some(refs) = db.get_reference_index().get_index_references(&key) {
                let mut rs: Vec<String> = refs
                    .iter()
                    .map(|r| {
                        if db.get_vfs().get_file_content(&r.file_id).is_none() {
                            dangling.push(format!("index-reference to .{k} in {}", rel_of(db, root, r.file_id)));
                        }
                        format!("{}:{}", rel_of(db, root, r.file_id), u32::from(r.value.get_range().start()))
                    })
                    .collect();
                rs.sort();
                if !rs.is_empty() {
                    lines.push(format!("irefs .{k} :: [{}]", rs.join(",")));
                }
            }
        }
    }

    // ---- string references of the given require strings
    for r in &opts.requires {
        let mut rs: Vec<String> = db
            .get_reference_index()
            .get_string_references(r)
            .iter()
            .map(|x| {
                if db.get_vfs().get_file_content(&x.file_id).is_none() {
                    dangling.push(format!("string-reference to '{r}' in {}", rel_of(db, root, x.file_id)));
                }
                format!("{}:{}", rel_of(db, root, x.file_id), u32::from(x.value.start()))
            })
            .collect();
        rs.sort();
        if !rs.is_empty() {
            lines.push(format!("srefs {r} :: [{}]", rs.join(",")));
        }
    }

    // ---- module resolution of given require strings
    for r in &opts.requires {
        let res = db.get_module_index().find_module(r);
        let v = match res {
            Some(m) => {
                if db.get_vfs().get_file_content(&m.file_id).is_none() {
                    dangling.push(format!("require '{r}' resolves to removed {}", rel_of(db, root, m.file_id)));
                }
                rel_of(db, root, m.file_id)
            }
            None => "-".into(),
        };
        lines.push(format!("require {r} :: {v}"));
    }
    // every registered module names a live file
    for m in db.get_module_index().get_module_infos() {
        if db.get_vfs().get_file_content(&m.file_id).is_none() {
            dangling.push(format!("module {} registered for removed {}", m.full_module_name, rel_of(db, root, m.file_id)));
        }
    }
    dangling.sort();
    dangling.dedup();
    Obs { lines, dangling }
}

/// Index sizes through hook H2, as a sorted map.
pub fn sizes(analysis: &EmmyLuaAnalysis) -> BTreeMap<String, usize> {
    analysis.compilation.get_db().verif_index_sizes().into_iter().map(|(k, v)| (k.to_string(), v)).collect()
}

/// Category of an observation line (first word).
pub fn category(line: &str) -> &str {
    line.split(' ').next().unwrap_or("?")
}

/// Compare two observations; returns (category, only-in-a, only-in-b) of the first few differing
/// lines per category.
pub fn diff(a: &[String], b: &[String]) -> BTreeMap<String, (Vec<String>, Vec<String>)> {
    // multiset comparison: the k-th repetition of a line is its own element ("... #2"), so an
    // entry that a query lists twice differs from one listed once
    fn tagged(v: &[String]) -> std::collections::BTreeSet<String> {
        let mut seen: BTreeMap<&String, usize> = BTreeMap::new();
        let mut out = std::collections::BTreeSet::new();
        for l in v {
            let n = seen.entry(l).or_insert(0);
            *n += 1;
            out.insert(if *n == 1 { l.clone() } else { format!("{l} #{n}") });
        }
        out
    }
    let sa = tagged(a);
    let sb = tagged(b);
    let mut out: BTreeMap<String, (Vec<String>, Vec<String>)> = BTreeMap::new();
    for l in sa.difference(&sb) {
        let e = out.entry(category(l).to_string()).or_default();
        if e.0.len() < 4 {
            e.0.push(l.clone());
        }
    }
    for l in sb.difference(&sa) {
        let e = out.entry(category(l).to_string()).or_default();
        if e.1.len() < 4 {
            e.1.push(l.clone());
        }
    }
    out
}
