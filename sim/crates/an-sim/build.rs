fn main() {
    // std looks `getrandom` up dynamically; export our interposed definition.
    println!("cargo:rustc-link-arg-bins=-Wl,--export-dynamic-symbol=getrandom");
}
