//! C36: `emmylua_check::run_check` on the owned tokio runtime (diagnose tasks complete in seeded
//! order, seeded yields at the bounded channel send); exit status and JSON / SARIF reports are
//! compared with a sequential reference diagnosis of an identically loaded analysis.

use std::cell::RefCell;
use std::collections::BTreeMap;
use std::path::{Path, PathBuf};
use std::rc::Rc;
use std::sync::Arc;

use serde::{Deserialize, Serialize};
use serde_json::{Map, Value, json};
use simcore::Rng;
use simcore::driver::{CaseReport, Engine};

use crate::controller::{Policy, SchedSpec, Shared, SharedRef, SimController};

#[derive(Serialize, Deserialize, Clone, Debug)]
pub struct CheckSpec {
    pub seed: u64,
    /// (rel path, template kind, n); paths under lib/ belong to a library root
    pub files: Vec<(String, String, u32)>,
    pub severity: Option<String>,
    pub warnings_as_errors: bool,
    pub format: String, // json | sarif | text
    pub sched: SchedSpec,
}

fn text_of(kind: &str, n: u32) -> String {
    match kind {
        "clean" => format!("local a{n} = {n}\nreturn a{n}\n"),
        "unused" => format!("local unused{n} = {n}\n"),
        "undefined" => format!("local v{n} = undefinedGlobal{n}\nreturn v{n}\n"),
        "syntax" => format!("local function (\nlocal x{n} = \n"),
        "mismatch" => format!("---@type string\nlocal s{n} = {n}\nreturn s{n}\n"),
        "mixed" => format!("local u{n} = 1\n---@type integer\nlocal t{n} = \"x\"\nprint(t{n}, nope{n})\nlocal function (\n"),
        "deprecated" => format!("---@deprecated\nlocal function old{n}() end\nold{n}()\n"),
        "lib" => format!("local libUnused{n} = undefinedInLib{n}\nlocal function (\n"),
        _ => format!("return {n}\n"),
    }
}

pub fn generate(seed: u64) -> CheckSpec {
    let mut r = Rng::stream(seed, "workload");
    let mut sw = Rng::stream(seed, "swarm");
    let n = *r.pick(&[1usize, 2, 3, 5, 8, 13, 30, 101, 130]);
    let mut files = Vec::new();
    // swarm: the severity population of the workspace. Which of exit status / report is wrong
    // for a given flag combination often depends on a severity being *absent* (warnings but no
    // error, hints only, ...), which a uniform mix of all kinds almost never produces.
    let palette: &[&str] = match r.below(6) {
        0 | 1 => &["clean", "clean", "unused", "undefined", "syntax", "mismatch", "mixed", "deprecated"],
        2 => &["clean", "unused", "mismatch", "deprecated", "mismatch"], // warnings + hints, no error
        3 => &["clean", "unused", "deprecated"],                         // hints only
        4 => &["clean", "syntax", "undefined"],                          // errors only
        _ => &["clean"],                                                 // nothing to report
    };
    for i in 0..n {
        let kind = *r.pick(palette);
        let rel = if i % 3 == 0 { format!("m{i}.lua") } else { format!("dir{}/m{i}.lua", i % 4) };
        files.push((rel, kind.to_string(), i as u32));
    }
    if r.chance(1, 2) {
        for i in 0..r.range(1, 3) {
            files.push((format!("lib/l{i}.lua"), "lib".to_string(), 1000 + i as u32));
        }
    }
    // a third of the cases: a second workspace root on the command line, holding files at the same
    // workspace-relative paths as the first one (with other diagnostics)
    if r.chance(1, 3) {
        let firsts: Vec<String> = files.iter().filter(|f| !f.0.starts_with("lib/")).map(|f| f.0.clone()).collect();
        for i in 0..r.range(1, 4) as usize {
            let rel = if i < firsts.len() && r.chance(3, 4) { firsts[i].clone() } else { format!("only2/x{i}.lua") };
            let kind = *r.pick(&["clean", "unused", "undefined", "syntax", "mismatch", "mixed"]);
            files.push((format!("ws2/{rel}"), kind.to_string(), 2000 + i as u32));
        }
    }
    CheckSpec {
        seed,
        files,
        severity: r.pick(&[None, None, Some("error"), Some("warn"), Some("info"), Some("hint")]).map(|s| s.to_string()),
        warnings_as_errors: r.chance(1, 3),
        format: (*r.pick(&["json", "json", "sarif", "text"])).to_string(),
        sched: SchedSpec {
            policy: *sw.pick(&[Policy::Random, Policy::Random, Policy::MostlyFifo, Policy::Priority, Policy::Fifo]),
            yield_permille: *sw.pick(&[0, 200, 600]),
            max_yields: *sw.pick(&[1, 3]),
            change_points: *sw.pick(&[0, 2, 4]),
            event_interval: *sw.pick(&[61, 1, 7, 1000, 1000]),
            stall_permille: 0,
            stall_len: 0,
            stall_target: String::new(),
            stall_who: 0,
        },
    }
}

fn severity_filter(s: &Option<String>) -> Option<emmylua_check::DiagnosticSeverityFilter> {
    match s.as_deref() {
        Some("error") => Some(emmylua_check::DiagnosticSeverityFilter::Error),
        Some("warn") => Some(emmylua_check::DiagnosticSeverityFilter::Warn),
        Some("info") => Some(emmylua_check::DiagnosticSeverityFilter::Info),
        Some("hint") => Some(emmylua_check::DiagnosticSeverityFilter::Hint),
        _ => None,
    }
}

/// Sequential reference: the same loading steps as `emmylua_check::init::load_workspace`, then
/// `diagnose_file` file by file.
fn reference(ws: &Path, roots: &[PathBuf], spec: &CheckSpec) -> (bool, BTreeMap<String, Vec<lsp_types::Diagnostic>>) {
    use emmylua_code_analysis::{EmmyLuaAnalysis, WorkspaceFolder, build_workspace_folders, collect_workspace_files, load_configs};
    let cfgs: Vec<PathBuf> = [".luarc.json", ".emmyrc.json", ".emmyrc.lua"].iter().map(|f| ws.join(f)).filter(|p| p.exists()).collect();
    let mut emmyrc = load_configs(cfgs, None);
    emmyrc.pre_process_emmyrc(ws);
    let mut analysis = EmmyLuaAnalysis::new();
    analysis.update_config(Arc::new(emmyrc));
    analysis.init_std_lib(None);
    let cmd_folders: Vec<WorkspaceFolder> = roots.iter().map(|r| WorkspaceFolder::new(r.clone(), false)).collect();
    let folders = build_workspace_folders(&cmd_folders, &analysis.emmyrc);
    for w in &folders {
        if w.is_library {
            analysis.add_library_workspace(w);
        } else {
            analysis.add_main_workspace(w.root.clone());
        }
    }
    let files = collect_workspace_files(&folders, &analysis.emmyrc, None, None).into_iter().map(|f| f.into_tuple()).collect();
    analysis.update_files_by_path(files);
    let filter = severity_filter(&spec.severity);
    let mut has_error = false;
    let mut out = BTreeMap::new();
    let ids = analysis.compilation.get_db().get_module_index().get_main_workspace_file_ids();
    for id in ids {
        let path = analysis.compilation.get_db().get_vfs().get_file_path(&id).cloned().unwrap_or_default();
        let mut diags = analysis.diagnose_file(id, tokio_util::sync::CancellationToken::new()).unwrap_or_default();
        if let Some(f) = filter {
            diags.retain(|d| f.allows(d.severity));
        }
        for d in &diags {
            match d.severity {
                Some(lsp_types::DiagnosticSeverity::ERROR) => has_error = true,
                Some(lsp_types::DiagnosticSeverity::WARNING) if spec.warnings_as_errors => has_error = true,
                _ => {}
            }
        }
        out.insert(path.to_string_lossy().to_string(), diags);
    }
    (has_error, out)
}

fn diag_key_json(d: &Value) -> String {
    format!(
        "{}|{}|{}|{}",
        d.get("range").map(|r| r.to_string()).unwrap_or_default(),
        d.get("severity").map(|r| r.to_string()).unwrap_or_default(),
        d.get("code").map(|r| r.to_string()).unwrap_or_default(),
        d.get("message").and_then(|m| m.as_str()).unwrap_or("")
    )
}

fn run_case(spec: &CheckSpec, verbose: bool) -> CaseReport {
    let dir = simcore::scratch::RunDir::acquire("chk", spec.seed);
    let ws = dir.0.join("ws");
    let has_lib = spec.files.iter().any(|f| f.0.starts_with("lib/"));
    for (rel, kind, n) in &spec.files {
        let p = if let Some(rest) = rel.strip_prefix("lib/") {
            dir.0.join("lib").join(rest)
        } else if let Some(rest) = rel.strip_prefix("ws2/") {
            dir.0.join("ws2").join(rest)
        } else {
            ws.join(rel)
        };
        if let Some(parent) = p.parent() {
            let _ = std::fs::create_dir_all(parent);
        }
        std::fs::write(&p, text_of(kind, *n)).expect("write");
    }
    let _ = std::fs::create_dir_all(&ws);
    if has_lib {
        std::fs::write(ws.join(".emmyrc.json"), json!({"workspace": {"library": [dir.0.join("lib").to_string_lossy()]}}).to_string()).expect("emmyrc");
    }
    let mut roots: Vec<PathBuf> = vec![ws.clone()];
    if spec.files.iter().any(|f| f.0.starts_with("ws2/")) {
        roots.push(dir.0.join("ws2"));
    }
    let report_path = dir.0.join(format!("report.{}", spec.format));
    let (fmt, dest) = match spec.format.as_str() {
        "json" => (emmylua_check::OutputFormat::Json, emmylua_check::OutputDestination::File(report_path.clone())),
        "sarif" => (emmylua_check::OutputFormat::Sarif, emmylua_check::OutputDestination::File(report_path.clone())),
        _ => (emmylua_check::OutputFormat::Text, emmylua_check::OutputDestination::Stdout),
    };
    let args = emmylua_check::CmdArgs {
        config: None,
        workspace: roots.clone(),
        ignore: None,
        output_format: fmt,
        output: dest,
        warnings_as_errors: spec.warnings_as_errors,
        severity: severity_filter(&spec.severity),
        verbose: false,
    };

    // ---- run_check on the owned runtime
    let shared: SharedRef = Rc::new(RefCell::new(Shared::new(spec.sched.clone(), spec.seed, None)));
    tokio::verif_seam::install(Box::new(SimController(shared.clone())));
    let rt = tokio::runtime::Builder::new_current_thread().enable_time().start_paused(true).event_interval(spec.sched.event_interval.max(1)).build().expect("rt");
    // text output goes to fd 1: park it on /dev/null for the duration of the call
    let text_path = dir.0.join("report.txt");
    let saved = if spec.format == "text" { Some(redirect_stdout(&text_path)) } else { None };
    // run_check's future is not Send (it owns a Box<dyn OutputWriter>): it is the root future of
    // block_on; the diagnose tasks it spawns are ordinary tasks under the seeded scheduler
    let result = rt.block_on(async move {
        match tokio::time::timeout(std::time::Duration::from_secs(600), emmylua_check::run_check(args)).await {
            Ok(r) => r.map_err(|e| e.to_string()),
            Err(_) => Err("stalled: run_check did not finish within 600 simulated seconds".to_string()),
        }
    });
    if let Some(fd) = saved {
        restore_stdout(fd);
    }
    drop(rt);
    let _ = tokio::verif_seam::uninstall();
    let (picks, yields, digest0) = {
        let s = shared.borrow();
        (s.stats.picks, s.stats.yields, s.digest.hex())
    };

    // ---- reference
    let (want_error, want) = reference(&ws, &roots, spec);
    let mut violations: Vec<(String, String)> = Vec::new();
    let mut counters: BTreeMap<String, u64> = BTreeMap::new();
    counters.insert(format!("format.{}", spec.format), 1);
    counters.insert("files".into(), spec.files.len() as u64);
    if roots.len() > 1 {
        counters.insert("probe.two_workspace_roots".into(), 1);
    }
    if spec.files.len() > 100 {
        counters.insert("probe.more_files_than_channel_capacity".into(), 1);
    }
    let got_error = match &result {
        Ok(()) => false,
        Err(e) if e == "exit code: 1" => true,
        Err(e) => {
            violations.push((format!("C36:run-failed:{}", e.split(':').next().unwrap_or("?")), e.clone()));
            false
        }
    };
    if violations.is_empty() && got_error != want_error {
        violations.push((
            format!("C36:exit-status:{}", if want_error { "zero-despite-errors" } else { "nonzero-without-errors" }),
            format!("severity={:?} warnings_as_errors={} format={}: run_check said error={got_error}, reference says {want_error}", spec.severity, spec.warnings_as_errors, spec.format),
        ));
    }
    let want_total: usize = want.values().map(|v| v.len()).sum();
    counters.insert("reference.diagnostics".into(), want_total as u64);
    if want_error {
        counters.insert("probe.reference_says_exit_nonzero".into(), 1);
    }
    // ---- report contents
    if violations.is_empty() && spec.format == "json" {
        match std::fs::read_to_string(&report_path).ok().and_then(|s| serde_json::from_str::<Value>(&s).ok()) {
            Some(Value::Array(entries)) => {
                let mut got: BTreeMap<String, Vec<String>> = BTreeMap::new();
                for e in &entries {
                    let file = e.get("file").and_then(|f| f.as_str()).unwrap_or("").to_string();
                    let ds: Vec<String> = e.get("diagnostics").and_then(|d| d.as_array()).map(|a| a.iter().map(diag_key_json).collect()).unwrap_or_default();
                    if got.contains_key(&file) {
                        violations.push(("C36:report:file-listed-twice".into(), format!("{file} appears more than once in the JSON report")));
                    }
                    got.entry(file).or_default().extend(ds);
                }
                for (file, diags) in &want {
                    let mut w: Vec<String> = diags.iter().map(|d| diag_key_json(&serde_json::to_value(d).unwrap_or(Value::Null))).collect();
                    let mut g = got.get(file).cloned().unwrap_or_default();
                    w.sort();
                    g.sort();
                    if w != g {
                        let kind = if g.len() < w.len() { "missing-diagnostics" } else if g.len() > w.len() { "extra-diagnostics" } else { "different-diagnostics" };
                        violations.push((format!("C36:report:json:{kind}"), format!("{file}: report has {} diagnostics, reference {}", g.len(), w.len())));
                        break;
                    }
                }
                for file in got.keys() {
                    if !want.contains_key(file) {
                        let kind = if file.contains("/lib/") { "library-file-reported" } else { "unknown-file-reported" };
                        violations.push((format!("C36:report:json:{kind}"), file.clone()));
                        break;
                    }
                }
            }
            _ => violations.push(("C36:report:json:unreadable".into(), format!("{report_path:?} missing or not a JSON array"))),
        }
    }
    if violations.is_empty() && spec.format == "text" {
        // the text report prints one header per file that has diagnostics:
        // `--- <path relative to the first workspace> [N errors, M warnings, K info, H hints]`
        let text = std::fs::read_to_string(&text_path).unwrap_or_default();
        let mut got: BTreeMap<String, Vec<String>> = BTreeMap::new();
        for l in text.lines() {
            if let Some(rest) = l.strip_prefix("--- ") {
                let (path, counts) = match rest.rfind(" [") {
                    Some(i) if rest.ends_with(']') => (rest[..i].trim().to_string(), rest[i + 2..rest.len() - 1].to_string()),
                    _ => (rest.trim().to_string(), String::new()),
                };
                got.entry(path).or_default().push(counts);
            }
        }
        counters.insert("text_report_headers".into(), got.values().map(|v| v.len() as u64).sum());
        let mut expected: BTreeMap<String, String> = BTreeMap::new();
        for (file, diags) in &want {
            if diags.is_empty() {
                continue;
            }
            let rel = Path::new(file).strip_prefix(&ws).map(|p| p.to_string_lossy().to_string()).unwrap_or_else(|_| file.clone());
            let (mut e, mut w, mut i, mut h) = (0, 0, 0, 0);
            for d in diags {
                match d.severity {
                    Some(lsp_types::DiagnosticSeverity::ERROR) => e += 1,
                    Some(lsp_types::DiagnosticSeverity::WARNING) => w += 1,
                    Some(lsp_types::DiagnosticSeverity::INFORMATION) => i += 1,
                    Some(lsp_types::DiagnosticSeverity::HINT) => h += 1,
                    _ => {}
                }
            }
            let mut parts = Vec::new();
            if e > 0 {
                parts.push(format!("{e} error{}", if e > 1 { "s" } else { "" }));
            }
            if w > 0 {
                parts.push(format!("{w} warning{}", if w > 1 { "s" } else { "" }));
            }
            if i > 0 {
                parts.push(format!("{i} info"));
            }
            if h > 0 {
                parts.push(format!("{h} hint{}", if h > 1 { "s" } else { "" }));
            }
            expected.insert(rel, parts.join(", "));
        }
        for (path, counts) in &expected {
            match got.get(path) {
                None => {
                    violations.push(("C36:report:text:missing-file".into(), format!("{path}: reference has [{counts}], the text report has no header for it")));
                    break;
                }
                Some(v) if v.len() > 1 => {
                    violations.push(("C36:report:text:file-listed-twice".into(), format!("{path} has {} headers", v.len())));
                    break;
                }
                Some(v) if v[0] != *counts => {
                    violations.push(("C36:report:text:different-counts".into(), format!("{path}: report says [{}], reference [{counts}]", v[0])));
                    break;
                }
                _ => {}
            }
        }
        for path in got.keys() {
            if !expected.contains_key(path) {
                let kind = if path.contains("/lib/") { "library-file-reported" } else { "unknown-file-reported" };
                violations.push((format!("C36:report:text:{kind}"), path.clone()));
                break;
            }
        }
    }
    if violations.is_empty() && spec.format == "sarif" {
        match std::fs::read_to_string(&report_path).ok().and_then(|s| serde_json::from_str::<Value>(&s).ok()) {
            Some(doc) => {
                let results = doc.pointer("/runs/0/results").and_then(|r| r.as_array()).cloned().unwrap_or_default();
                let key = |uri: &str, rule: &str, msg: &str, region: &Value| format!("{uri}|{rule}|{msg}|{region}");
                let mut got: Vec<String> = results
                    .iter()
                    .map(|r| {
                        key(
                            r.pointer("/locations/0/physicalLocation/artifactLocation/uri").and_then(|u| u.as_str()).unwrap_or(""),
                            r.get("ruleId").and_then(|u| u.as_str()).unwrap_or(""),
                            r.pointer("/message/text").and_then(|u| u.as_str()).unwrap_or(""),
                            r.pointer("/locations/0/physicalLocation/region").unwrap_or(&Value::Null),
                        )
                    })
                    .collect();
                let mut wanted: Vec<String> = Vec::new();
                for (file, diags) in &want {
                    let uri = emmylua_code_analysis::file_path_to_uri(&PathBuf::from(file)).map(|u| u.as_str().to_string()).unwrap_or_default();
                    for d in diags {
                        let rule = match &d.code {
                            Some(lsp_types::NumberOrString::Number(n)) => n.to_string(),
                            Some(lsp_types::NumberOrString::String(s)) => s.clone(),
                            None => "unknown".into(),
                        };
                        let region = json!({"startLine": d.range.start.line + 1, "startColumn": d.range.start.character + 1, "endLine": d.range.end.line + 1, "endColumn": d.range.end.character + 1});
                        wanted.push(key(&uri, &rule, &d.message, &region));
                    }
                }
                got.sort();
                wanted.sort();
                if got != wanted {
                    let kind = if got.len() < wanted.len() { "missing-results" } else if got.len() > wanted.len() { "extra-results" } else { "different-results" };
                    violations.push((format!("C36:report:sarif:{kind}"), format!("SARIF has {} results, reference {}", got.len(), wanted.len())));
                }
            }
            None => violations.push(("C36:report:sarif:unreadable".into(), format!("{report_path:?} missing or not JSON"))),
        }
    }
    let mut seen = std::collections::BTreeSet::new();
    violations.retain(|x| seen.insert(x.0.clone()));
    if verbose {
        println!("spec: {}", serde_json::to_string(spec).unwrap_or_default());
        println!("result: {result:?}; reference error={want_error} diagnostics={want_total}; picks={picks} yields={yields}");
    }
    counters.insert("scheduler_picks_with_choice".into(), picks);
    counters.insert("pre_acquire_yields_injected".into(), yields);
    let mut d = simcore::Digest::new();
    d.str(&digest0);
    d.str(&format!("{result:?}"));
    d.u64(want_total as u64);
    CaseReport {
        violations,
        digest: d.hex(),
        nontrivial: picks > 0 && spec.files.len() >= 2,
        final_state: format!("{got_error}:{want_total}"),
        counters,
        sample: json!({"files": spec.files.len(), "kinds": spec.files.iter().take(6).map(|f| f.1.clone()).collect::<Vec<_>>(), "severity": spec.severity, "warnings_as_errors": spec.warnings_as_errors, "format": spec.format, "sched": spec.sched, "reference_diagnostics": want_total, "exit_nonzero": got_error}),
        error: None,
    }
}

fn redirect_stdout(to: &Path) -> i32 {
    use std::io::Write;
    use std::os::unix::ffi::OsStrExt;
    let _ = std::io::stdout().flush();
    let cpath = std::ffi::CString::new(to.as_os_str().as_bytes()).unwrap_or_else(|_| c"/dev/null".to_owned());
    unsafe {
        let saved = libc::dup(1);
        let null = libc::open(cpath.as_ptr(), libc::O_WRONLY | libc::O_CREAT | libc::O_TRUNC, 0o644);
        libc::dup2(null, 1);
        libc::close(null);
        saved
    }
}

fn restore_stdout(saved: i32) {
    use std::io::Write;
    let _ = std::io::stdout().flush();
    unsafe {
        libc::dup2(saved, 1);
        libc::close(saved);
    }
}

pub struct Check36;

impl Engine for Check36 {
    fn engine_name(&self) -> &'static str {
        "E-LS/check"
    }
    fn generate(&self, _prop: &str, seed: u64) -> Value {
        serde_json::to_value(generate(seed)).unwrap()
    }
    fn run(&self, _prop: &str, spec: &Value, verbose: bool) -> CaseReport {
        let Ok(spec) = serde_json::from_value::<CheckSpec>(spec.clone()) else {
            return CaseReport { error: Some("bad spec".into()), ..Default::default() };
        };
        let hs = simcore::rng::derive(spec.seed, "hash");
        match simcore::on_fresh_thread(hs, 256, move || run_case(&spec, verbose)) {
            Ok(r) => r,
            Err(e) => CaseReport {
                violations: vec![("C36:panicked".into(), e.chars().take(300).collect())],
                digest: "panic".into(),
                nontrivial: true,
                ..Default::default()
            },
        }
    }
    fn shrink(&self, _prop: &str, spec: &Value) -> Vec<Value> {
        let Ok(s) = serde_json::from_value::<CheckSpec>(spec.clone()) else { return vec![] };
        let mut out = Vec::new();
        let n = s.files.len();
        if n > 1 {
            let mut a = s.clone();
            a.files.truncate(n / 2);
            out.push(a);
            let mut b = s.clone();
            b.files = s.files[n / 2..].to_vec();
            out.push(b);
            if n <= 12 {
                for i in 0..n {
                    let mut c = s.clone();
                    c.files.remove(i);
                    out.push(c);
                }
            }
        }
        out.into_iter().filter_map(|c| serde_json::to_value(c).ok()).collect()
    }
    fn default_runs(&self, _prop: &str, tier: &str) -> u64 {
        if tier == "thorough" { 20_000 } else { 300 }
    }
    fn rule(&self, _prop: &str) -> String {
        "one evaluation = one generated workspace on disk (1-130 files with a known mix of syntax errors, type mismatches, undefined globals, unused locals, deprecated calls; optionally a library root whose files must not be reported) x severity filter x warnings-as-errors x output format (json / sarif to a file, text to stdout), checked with the real emmylua_check::run_check on the seeded single-thread tokio runtime (diagnose tasks complete in seeded order, seeded yields at the bounded result channel) against a sequential diagnosis of an identically loaded analysis; non-trivial = >=2 files and the scheduler had a real choice; distinct = distinct digests of (scheduling decisions, result)".into()
    }
    fn assumptions(&self, _prop: &str) -> Vec<String> {
        vec![
            "process exit status is judged through run_check's Result (the binary maps Err to a non-zero exit)".into(),
            "text output is judged for the exit status only (its report is human-oriented)".into(),
        ]
    }
    fn extra_coverage(&self, _prop: &str) -> Map<String, Value> {
        let mut m = Map::new();
        m.insert("real_components".into(), json!(["emmylua_check::run_check (workspace loading incl. std library, task fan-out, output_result, JSON and SARIF writers)", "EmmyLuaAnalysis::diagnose_file", "tokio mpsc bounded channel"]));
        m.insert("stubbed_components".into(), json!(["multi-thread tokio scheduler (seeded current-thread scheduler)", "process exit (Result of run_check)"]));
        m
    }
    fn warm_up(&self) {
        let spec = self.generate("C36", 0x5eed_0036);
        let _ = self.run("C36", &spec, false);
    }
}
