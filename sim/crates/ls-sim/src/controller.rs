//! The simulator's side of the tokio seam: seeded task picking, seeded pre-acquire yields, lock
//! trace, wait-for state, lock-order edges, re-acquisition detection, decision recording/replay.

use std::cell::RefCell;
use std::collections::{BTreeMap, BTreeSet};
use std::rc::Rc;

use serde::{Deserialize, Serialize};
use simcore::{Digest, Rng};
use tokio::verif_seam::{AcqKind, Controller, LockEvent, LockMode, LockOp};

#[derive(Clone, Copy, Debug, Serialize, Deserialize, PartialEq, Eq)]
pub enum Policy {
    /// uniform random among runnable tasks
    Random,
    /// FIFO, with a random pick every `1/8` decisions
    MostlyFifo,
    /// PCT-like: random priorities per task, a few priority change points
    Priority,
    /// plain FIFO, no yields (what an unloaded single worker would do)
    Fifo,
}

#[derive(Clone, Debug, Serialize, Deserialize)]
pub struct SchedSpec {
    pub policy: Policy,
    /// probability (per 1000) that an acquisition is preceded by yields
    pub yield_permille: u32,
    /// max yields per acquisition
    pub max_yields: u32,
    /// number of priority change points (Priority policy)
    pub change_points: u32,
    /// tokio's event_interval: how many tasks the scheduler runs before it polls the root
    /// future / timers again (61 is tokio's default; 1 and 1000 are the extremes explored)
    #[serde(default = "default_event_interval")]
    pub event_interval: u32,
    /// probability (per 1000) that an acquisition is preceded by a *long* stall of the acquiring
    /// task (a worker thread descheduled for a while): every other runnable task gets up to
    /// `stall_len` polls in between, enough to complete whole multi-await operations inside a
    /// window that is otherwise a few scheduler steps wide
    #[serde(default)]
    pub stall_permille: u32,
    #[serde(default)]
    pub stall_len: u32,
    /// only acquisitions of locks whose protected type name contains this string stall ("" = any):
    /// "this resource is slow in this run"
    #[serde(default)]
    pub stall_target: String,
    /// who stalls: 0 every task, 1 every task but the server's main loop (background tasks are
    /// slow, the main loop overtakes them), 2 only the main loop (background tasks overtake it)
    #[serde(default)]
    pub stall_who: u32,
}

fn default_event_interval() -> u32 {
    61
}

#[derive(Clone, Copy, Debug, PartialEq, Eq, PartialOrd, Ord, Serialize, Deserialize)]
pub enum Mode {
    R,
    W,
    M,
}

impl From<LockMode> for Mode {
    fn from(m: LockMode) -> Self {
        match m {
            LockMode::Read => Mode::R,
            LockMode::Write => Mode::W,
            LockMode::Mutex => Mode::M,
        }
    }
}

#[derive(Clone, Debug)]
pub struct LockEv {
    pub op: LockOp,
    pub mode: Mode,
    pub lock: usize,
    pub task: usize,
    /// the task held the reload mutex (`Mutex<()>`) when the event happened
    pub under_reload: bool,
}

#[derive(Default)]
pub struct Stats {
    pub picks: u64,
    pub nontrivial_picks: u64,
    pub non_fifo_picks: u64,
    pub yields: u64,
    pub lock_events: u64,
    pub max_queue: usize,
}

pub struct Shared {
    pub spec: SchedSpec,
    rng: Rng,
    pub decisions: Vec<u32>,
    replay: Option<Vec<u32>>,
    replay_pos: usize,
    pub rt_seed: u64,
    // normalisation
    task_ix: BTreeMap<u64, usize>,
    lock_ix: BTreeMap<usize, usize>,
    pub lock_names: Vec<String>,
    // live state
    pub held: Vec<(usize, usize, Mode)>, // (task, lock, mode)
    pub waiting: BTreeMap<usize, (usize, Mode)>,
    pub events: Vec<LockEv>,
    pub order_edges: BTreeSet<(String, Mode, String, Mode)>,
    pub reacquire: BTreeSet<String>,
    pub reacquire_sites: BTreeSet<String>,
    pub digest: Digest,
    pub stats: Stats,
    prio: BTreeMap<u64, u64>,
    change_at: Vec<u64>,
    pub probes: BTreeMap<&'static str, u64>,
    pub capture_backtraces: bool,
    /// raw tokio id of the task running the server's main loop (set by the harness)
    pub main_task_raw: u64,
    /// (normalised task, remaining acquisitions) of a task that is being held back
    pub slow_task: Option<(usize, u32)>,
    /// the main loop is held back when this counter reaches 1 (0 = inactive)
    pub main_countdown: u32,
    armed: Option<Armed>,
}

struct Armed {
    what: usize,
    hold: u32,
    fired: bool,
    waker: Option<std::task::Waker>,
    main_stall_at: u32,
}

/// Resolves when the armed trigger of the current run has fired.
pub struct TriggerFired;

impl std::future::Future for TriggerFired {
    type Output = ();
    fn poll(self: std::pin::Pin<&mut Self>, cx: &mut std::task::Context<'_>) -> std::task::Poll<()> {
        let fired = with_current(|s| {
            if s.trigger_fired() {
                true
            } else {
                s.set_trigger_waker(cx.waker().clone());
                false
            }
        })
        .unwrap_or(true);
        if fired { std::task::Poll::Ready(()) } else { std::task::Poll::Pending }
    }
}

pub type SharedRef = Rc<RefCell<Shared>>;

thread_local! {
    /// The controller of the run executing on this thread, for code that cannot hold an `Rc`
    /// (the simulated client is a spawned task and must be `Send`).
    static CURRENT: RefCell<Option<SharedRef>> = const { RefCell::new(None) };
}

pub fn set_current(s: Option<SharedRef>) {
    CURRENT.with(|c| *c.borrow_mut() = s);
}

/// Read access to the controller of the current run (None outside a run).
pub fn with_current<R>(f: impl FnOnce(&mut Shared) -> R) -> Option<R> {
    CURRENT.with(|c| c.borrow().as_ref().map(|s| f(&mut s.borrow_mut())))
}

/// Trace triggers: what the simulated client can wait for before its next step, so that the
/// step lands right after a snapshot / inside a critical section of a background task instead of
/// at a blind offset. (lock type substring, mode, operation)
pub const TRIGGERS: &[(&str, Mode, LockOp, &str)] = &[
    // 0..3: the same events by the task that holds the reload mutex (names start with "reload-")
    ("WorkspaceManager", Mode::W, LockOp::Released, "reload-released-workspace-manager-write"),
    ("EmmyLuaAnalysis", Mode::W, LockOp::Released, "reload-released-analysis-write"),
    ("EmmyLuaAnalysis", Mode::W, LockOp::Acquired, "reload-acquired-analysis-write"),
    ("WorkspaceManager", Mode::R, LockOp::Acquired, "reload-acquired-workspace-manager-read"),
    ("WorkspaceManager", Mode::W, LockOp::Released, "bg-released-workspace-manager-write"),
    ("EmmyLuaAnalysis", Mode::W, LockOp::Released, "bg-released-analysis-write"),
    ("EmmyLuaAnalysis", Mode::W, LockOp::Acquired, "bg-acquired-analysis-write"),
    ("WorkspaceManager", Mode::R, LockOp::Acquired, "bg-acquired-workspace-manager-read"),
    ("CancellationToken", Mode::M, LockOp::Released, "bg-released-token-table"),
    ("EmmyLuaAnalysis", Mode::R, LockOp::Wait, "bg-waits-analysis-read"),
    ("EmmyLuaAnalysis", Mode::W, LockOp::Wait, "bg-waits-analysis-write"),
    ("EmmyLuaAnalysis", Mode::R, LockOp::Released, "bg-released-analysis-read"),
    ("EmmyLuaAnalysis", Mode::R, LockOp::Acquired, "bg-acquired-analysis-read"),
];

pub fn short_type(ty: &str) -> String {
    // "tokio::sync::rwlock::RwLock<emmylua_code_analysis::EmmyLuaAnalysis>" comes in as the T only
    let mut out = String::new();
    let mut seg = String::new();
    for ch in ty.chars() {
        if ch.is_alphanumeric() || ch == '_' {
            seg.push(ch);
        } else if ch == ':' {
            seg.clear();
        } else {
            out.push_str(&seg);
            seg.clear();
            out.push(ch);
        }
    }
    out.push_str(&seg);
    out
}

impl Shared {
    pub fn new(spec: SchedSpec, seed: u64, replay: Option<Vec<u32>>) -> Self {
        let mut rng = Rng::stream(seed, "sched");
        let mut change_at = Vec::new();
        for _ in 0..spec.change_points {
            change_at.push(rng.range(1, 400));
        }
        Shared {
            spec,
            rt_seed: simcore::rng::derive(seed, "tokio-rt"),
            rng,
            decisions: Vec::new(),
            replay,
            replay_pos: 0,
            task_ix: BTreeMap::new(),
            lock_ix: BTreeMap::new(),
            lock_names: Vec::new(),
            held: Vec::new(),
            waiting: BTreeMap::new(),
            events: Vec::new(),
            order_edges: BTreeSet::new(),
            reacquire: BTreeSet::new(),
            reacquire_sites: BTreeSet::new(),
            digest: Digest::new(),
            stats: Stats::default(),
            prio: BTreeMap::new(),
            change_at,
            probes: BTreeMap::new(),
            capture_backtraces: false,
            main_task_raw: 0,
            slow_task: None,
            main_countdown: 0,
            armed: None,
        }
    }

    fn decide(&mut self, fresh: impl FnOnce(&mut Self) -> u32, bound: u32) -> u32 {
        let d = if let Some(r) = &self.replay {
            let v = r.get(self.replay_pos).copied().unwrap_or(0);
            self.replay_pos += 1;
            if bound > 0 && v >= bound { 0 } else { v }
        } else {
            fresh(self)
        };
        self.decisions.push(d);
        d
    }

    fn task(&mut self, id: u64) -> usize {
        let n = self.task_ix.len();
        *self.task_ix.entry(id).or_insert(n)
    }

    fn lock(&mut self, addr: usize, ty: &str) -> usize {
        if let Some(i) = self.lock_ix.get(&addr) {
            return *i;
        }
        let n = self.lock_names.len();
        self.lock_ix.insert(addr, n);
        self.lock_names.push(short_type(ty));
        n
    }

    pub fn main_task(&self) -> Option<usize> {
        self.task_ix.get(&self.main_task_raw).copied()
    }

    pub fn lock_named(&self, name: &str) -> Option<usize> {
        self.lock_names.iter().position(|n| n == name)
    }

    /// Arm trigger `what`: when a background task (not the server's main loop) produces that
    /// lock-trace event, the waiting client is woken at once and the task is held back at its
    /// next `hold` acquisitions.
    pub fn arm(&mut self, what: usize, hold: u32) {
        self.arm_with(what, hold, 0);
    }

    /// `main_stall_at`: once the event has happened, the server's main loop is held back at its
    /// n-th acquisition of `analysis.write` from then on (0 = not at all): the main loop
    /// descheduled in the middle of a handler, between what it decided under an earlier lock and
    /// the write that acts on it.
    pub fn arm_with(&mut self, what: usize, hold: u32, main_stall_at: u32) {
        self.armed = Some(Armed { what: what % TRIGGERS.len(), hold, fired: false, waker: None, main_stall_at });
    }

    pub fn disarm(&mut self) {
        self.armed = None;
    }

    pub fn trigger_fired(&self) -> bool {
        self.armed.as_ref().map(|a| a.fired).unwrap_or(true)
    }

    pub fn set_trigger_waker(&mut self, w: std::task::Waker) {
        if let Some(a) = self.armed.as_mut() {
            a.waker = Some(w);
        }
    }

    fn check_trigger(&mut self, e: &LockEv) -> Option<std::task::Waker> {
        let main = self.main_task();
        let a = self.armed.as_ref()?;
        if a.fired {
            return None;
        }
        let (ty, mode, op, name) = TRIGGERS[a.what];
        let reload_only = name.starts_with("reload-");
        let hit = Some(e.task) != main
            && e.mode == mode
            && (e.op as u8) == (op as u8)
            && (!reload_only || e.under_reload)
            && self.lock_names[e.lock].contains(ty);
        if !hit {
            return None;
        }
        let hold = a.hold;
        if hold > 0 {
            self.slow_task = Some((e.task, hold));
        }
        if a.main_stall_at > 0 {
            self.main_countdown = a.main_stall_at;
        }
        let a = self.armed.as_mut()?;
        a.fired = true;
        a.waker.take()
    }

    /// The next `acqs` lock acquisitions of task `task` stall for long (a worker thread that is
    /// descheduled right after the event the client waited for).
    pub fn hold_back(&mut self, task: usize, acqs: u32) {
        self.slow_task = Some((task, acqs));
    }

    pub fn probe(&mut self, name: &'static str) {
        *self.probes.entry(name).or_insert(0) += 1;
    }

    /// Human-readable wait-for description of every blocked task (used for stall reports and
    /// the C28 violation class).
    pub fn wait_for_graph(&self) -> Vec<String> {
        let mut out = Vec::new();
        for (task, (lock, mode)) in &self.waiting {
            let holders: Vec<String> = self
                .held
                .iter()
                .filter(|(t, l, _)| l == lock && t != task)
                .map(|(t, _, m)| format!("t{t}:{m:?}"))
                .collect();
            let mine: Vec<String> = self
                .held
                .iter()
                .filter(|(t, _, _)| t == task)
                .map(|(_, l, m)| format!("{}:{m:?}", self.lock_names[*l]))
                .collect();
            out.push(format!(
                "t{task} waits {}:{mode:?} holding [{}] held-by [{}]",
                self.lock_names[*lock],
                mine.join(","),
                holders.join(",")
            ));
        }
        out
    }

    /// Canonical class of the current blocked state: the hold-and-wait edges of the tasks that
    /// are part of a wait-for cycle (victims that merely queue behind the cycle are left out).
    /// T waits-for U when U holds the lock T wants in an incompatible mode, or when T wants a
    /// read lock that only readers hold while U is a queued writer (fair, write-preferring
    /// RwLock: a queued writer blocks later readers) and U in turn waits for the current readers.
    pub fn stall_class(&self) -> String {
        let tasks: Vec<usize> = self.waiting.keys().copied().collect();
        let incompatible = |want: Mode, held: Mode| !(want == Mode::R && held == Mode::R);
        let mut edges: BTreeMap<usize, BTreeSet<usize>> = BTreeMap::new();
        for (&t, &(lock, mode)) in &self.waiting {
            let e = edges.entry(t).or_default();
            for (ht, hl, hm) in &self.held {
                if *hl == lock && (incompatible(mode, *hm) || *ht == t) && (*ht != t || true) {
                    if *ht != t {
                        e.insert(*ht);
                    }
                }
            }
            if mode == Mode::R {
                // queued writers on the same lock block this reader
                for (&u, &(ul, um)) in &self.waiting {
                    if u != t && ul == lock && um == Mode::W {
                        e.insert(u);
                    }
                }
            }
            // a writer is blocked by every current holder (covered above)
        }
        // tasks on a cycle: t reaches itself
        let reach = |from: usize| -> BTreeSet<usize> {
            let mut seen = BTreeSet::new();
            let mut stack: Vec<usize> = edges.get(&from).map(|s| s.iter().copied().collect()).unwrap_or_default();
            while let Some(x) = stack.pop() {
                if seen.insert(x) {
                    if let Some(n) = edges.get(&x) {
                        stack.extend(n.iter().copied());
                    }
                }
            }
            seen
        };
        let mut parts: Vec<String> = Vec::new();
        let mut all_parts: Vec<String> = Vec::new();
        for t in tasks {
            if !reach(t).contains(&t) {
                continue;
            }
            let (lock, mode) = self.waiting[&t];
            // the class names read-write locks only: a cycle member that holds nothing but a
            // mutex (or nothing at all: the queued writer of a fair lock) adds no information
            let mut mine: Vec<String> = self
                .held
                .iter()
                .filter(|(ht, _, hm)| *ht == t && *hm != Mode::M)
                .map(|(_, l, m)| format!("{}.{m:?}", self.lock_names[*l]))
                .collect();
            mine.sort();
            mine.dedup();
            all_parts.push(format!("{}->{}.{mode:?}", mine.join("+"), self.lock_names[lock]));
            if !mine.is_empty() {
                parts.push(format!("{}->{}.{mode:?}", mine.join("+"), self.lock_names[lock]));
            }
        }
        if parts.is_empty() {
            parts = all_parts;
        }
        parts.sort();
        parts.dedup();
        if parts.is_empty() {
            // blocked without a lock cycle (e.g. waiting for a message that never comes)
            let mut hw: Vec<String> = Vec::new();
            for (task, (lock, mode)) in &self.waiting {
                let mut mine: Vec<String> = self
                    .held
                    .iter()
                    .filter(|(t, _, _)| t == task)
                    .map(|(_, l, m)| format!("{}.{m:?}", self.lock_names[*l]))
                    .collect();
                if mine.is_empty() {
                    continue;
                }
                mine.sort();
                hw.push(format!("{}->{}.{mode:?}", mine.join("+"), self.lock_names[*lock]));
            }
            hw.sort();
            hw.dedup();
            return format!("no-cycle[{}]", hw.join(" | "));
        }
        parts.join(" | ")
    }
}

pub struct SimController(pub SharedRef);

impl Controller for SimController {
    fn pick(&mut self, ids: &[u64]) -> usize {
        let mut s = self.0.borrow_mut();
        let len = ids.len();
        s.stats.picks += 1;
        if len > s.stats.max_queue {
            s.stats.max_queue = len;
        }
        if len <= 1 {
            return 0;
        }
        s.stats.nontrivial_picks += 1;
        let policy = s.spec.policy;
        let step = s.stats.nontrivial_picks;
        let ids_v: Vec<u64> = ids.to_vec();
        let d = s.decide(
            |s| match policy {
                Policy::Fifo => 0,
                Policy::Random => s.rng.below(len as u64) as u32,
                Policy::MostlyFifo => {
                    if s.rng.chance(1, 8) {
                        s.rng.below(len as u64) as u32
                    } else {
                        0
                    }
                }
                Policy::Priority => {
                    for id in &ids_v {
                        if !s.prio.contains_key(id) {
                            let p = s.rng.next_u64() | (1 << 40);
                            s.prio.insert(*id, p);
                        }
                    }
                    let mut best = 0usize;
                    for (i, id) in ids_v.iter().enumerate() {
                        if s.prio[id] > s.prio[&ids_v[best]] {
                            best = i;
                        }
                    }
                    if s.change_at.contains(&step) {
                        // demote the task that would have run
                        let low = s.rng.below(1 << 20);
                        s.prio.insert(ids_v[best], low);
                    }
                    best as u32
                }
            },
            len as u32,
        );
        if d != 0 {
            s.stats.non_fifo_picks += 1;
        }
        let t = s.task(ids[d as usize]);
        s.digest.u64(0x1000 + t as u64);
        d as usize
    }

    fn pre_acquire_yields(&mut self, _kind: AcqKind, task_raw: u64, ty: &'static str) -> u32 {
        let mut s = self.0.borrow_mut();
        let is_main = task_raw == s.main_task_raw;
        let who_ok = match s.spec.stall_who {
            1 => !is_main,
            2 => is_main,
            _ => true,
        };
        let stall_here = who_ok && (s.spec.stall_target.is_empty() || ty.contains(s.spec.stall_target.as_str()));
        let pm = s.spec.yield_permille;
        let maxy = s.spec.max_yields.max(1);
        let (spm, slen) = (s.spec.stall_permille, s.spec.stall_len.max(2));
        let this = s.task(task_raw);
        let mut held_back = match s.slow_task {
            Some((t, n)) if t == this && n > 0 => {
                s.slow_task = if n > 1 { Some((t, n - 1)) } else { None };
                true
            }
            _ => false,
        };
        // counts the main loop's *write* acquisitions of the analysis lock: the points where a
        // text-document handler acts on what it decided under an earlier (read) lock
        if is_main && s.main_countdown > 0 && matches!(_kind, AcqKind::RwWrite) && ty.contains("EmmyLuaAnalysis") {
            s.main_countdown -= 1;
            if s.main_countdown == 0 {
                held_back = true;
                s.probes.entry("main_loop_held_back_after_trigger").and_modify(|c| *c += 1).or_insert(1);
            }
        }
        let d = s.decide(
            |s| {
                if held_back {
                    s.probes.entry("held_back_after_trigger").and_modify(|c| *c += 1).or_insert(1);
                    s.rng.range(24, 48) as u32
                } else if spm > 0 && stall_here && s.rng.below(1000) < spm as u64 {
                    s.probes.entry("long_stall_injected").and_modify(|c| *c += 1).or_insert(1);
                    s.rng.range((slen / 2).max(1) as u64, slen as u64) as u32
                } else if pm > 0 && s.rng.below(1000) < pm as u64 {
                    s.rng.range(1, maxy as u64) as u32
                } else {
                    0
                }
            },
            0,
        );
        let d = d.min(64);
        s.stats.yields += d as u64;
        d
    }

    fn lock_event(&mut self, ev: LockEvent) {
        let mut s = self.0.borrow_mut();
        s.stats.lock_events += 1;
        let task = s.task(ev.task);
        let lock = s.lock(ev.addr, ev.ty);
        let mode: Mode = ev.mode.into();
        s.digest.u64(
            ((ev.op as u64) << 48) | ((mode as u64) << 40) | ((lock as u64) << 20) | task as u64,
        );
        match ev.op {
            LockOp::Wait => {
                // discipline clauses: re-acquisition and order edges
                let mine: Vec<(usize, Mode)> = s
                    .held
                    .iter()
                    .filter(|(t, _, _)| *t == task)
                    .map(|(_, l, m)| (*l, *m))
                    .collect();
                for (l, m) in &mine {
                    if *l == lock {
                        // class = lock, modes and what else the task holds at that moment (a cheap
                        // discriminator between call sites); the source location is resolved from
                        // a backtrace only in reporting runs (symbolisation costs ~100 ms)
                        let mut holding: Vec<String> =
                            mine.iter().map(|(hl, hm)| format!("{}.{hm:?}", s.lock_names[*hl])).collect();
                        holding.sort();
                        let key = format!("{}:{m:?}->{mode:?}#holding[{}]", s.lock_names[lock], holding.join(","));
                        if s.capture_backtraces {
                            let site = backtrace_site(&key);
                            s.reacquire_sites.insert(format!("{key} at {site}"));
                        }
                        s.reacquire.insert(key);
                    } else {
                        let e = (s.lock_names[*l].clone(), *m, s.lock_names[lock].clone(), mode);
                        s.order_edges.insert(e);
                    }
                }
                s.waiting.insert(task, (lock, mode));
            }
            LockOp::Acquired => {
                s.waiting.remove(&task);
                s.held.push((task, lock, mode));
            }
            LockOp::Released => {
                if let Some(p) = s
                    .held
                    .iter()
                    .rposition(|(t, l, m)| *t == task && *l == lock && *m == mode)
                    .or_else(|| s.held.iter().rposition(|(_, l, m)| *l == lock && *m == mode))
                {
                    s.held.remove(p);
                }
            }
        }
        if s.events.len() < 200_000 {
            let under_reload = s.held.iter().any(|(t, l, m)| *t == task && *m == Mode::M && s.lock_names[*l] == "()");
            let e = LockEv { op: ev.op, mode, lock, task, under_reload };
            if trace_enabled() {
                eprintln!("    lock t{task}{} {:?} {:?} {}{}", if Some(task) == s.main_task() { "(main)" } else { "" }, ev.op as u8, mode, s.lock_names[lock], if under_reload { " [reload]" } else { "" });
            }
            let waker = s.check_trigger(&e);
            s.events.push(e);
            if let Some(w) = waker {
                drop(s);
                w.wake();
            }
        }
    }

    fn rng_seed(&mut self) -> Option<u64> {
        Some(self.0.borrow().rt_seed)
    }
}

fn trace_enabled() -> bool {
    static ON: std::sync::OnceLock<bool> = std::sync::OnceLock::new();
    *ON.get_or_init(|| std::env::var("VERIF_LS_TRACE").is_ok())
}

static BT_CACHE: std::sync::Mutex<BTreeMap<String, String>> = std::sync::Mutex::new(BTreeMap::new());

/// Innermost `emmylua_ls` frame of the current call stack (function name only), cached per key.
fn backtrace_site(key: &str) -> String {
    if let Some(v) = BT_CACHE.lock().ok().and_then(|c| c.get(key).cloned()) {
        return v;
    }
    let bt = std::backtrace::Backtrace::force_capture().to_string();
    let mut site = String::from("?");
    for line in bt.lines() {
        let l = line.trim();
        // frame lines look like "12: emmylua_ls::handlers::...::{{closure}}"
        let sym = match l.split_once(": ") {
            Some((n, rest)) if n.chars().all(|c| c.is_ascii_digit()) => rest,
            _ => continue,
        };
        if sym.starts_with("emmylua_ls::") || sym.starts_with("<emmylua_ls::") {
            let f = sym.replace("::{{closure}}", "");
            let parts: Vec<&str> = f.split("::").collect();
            let n = parts.len();
            site = if n >= 2 { format!("{}::{}", parts[n - 2], parts[n - 1]) } else { f.clone() };
            break;
        }
    }
    if let Ok(mut c) = BT_CACHE.lock() {
        c.insert(key.to_string(), site.clone());
    }
    site
}
