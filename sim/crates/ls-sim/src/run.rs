//! One simulated execution: the real `emmylua_ls::run_ls` and the simulated client as tasks on
//! a seeded current-thread tokio runtime with a paused clock, an in-memory transport and a
//! scratch workspace on disk.

use std::cell::RefCell;
use std::collections::{BTreeMap, BTreeSet};
use std::path::{Path, PathBuf};
use std::rc::Rc;
use std::time::Duration;

use lsp_server::{Connection, Message, Response};
use serde_json::{Value, json};
use simcore::{Digest, Rng};
use tokio::sync::mpsc::UnboundedSender;

use crate::controller::{Shared, SharedRef, SimController};
use crate::proto;
use crate::script::{Action, Gap, ParamKind, RunSpec};

#[derive(Clone, Debug)]
pub enum Dir {
    C2S,
    S2C,
}

#[derive(Clone, Debug)]
pub struct HEvent {
    pub t_ms: u64,
    pub dir: Dir,
    pub msg: Message,
}

#[derive(Clone, Debug, PartialEq)]
pub enum WatchTarget {
    Doc(usize),
    Emmyrc,
}

#[derive(Clone, Debug)]
pub struct SentReq {
    pub method: String,
    pub kind: &'static str, // valid | malformed | unknown-method | probe
    pub seq: usize,
    pub t_ms: u64,
}

#[derive(Clone, Debug)]
pub struct Publication {
    pub seq: usize,
    pub t_ms: u64,
    pub diagnostics: Vec<Value>,
}

#[derive(Default)]
pub struct Outcome {
    pub history: Vec<HEvent>,
    pub sent: BTreeMap<i32, SentReq>,
    pub responses: BTreeMap<i32, Vec<(usize, Response)>>,
    /// responses to ids the client never used
    pub alien_responses: Vec<Response>,
    pub publishes: BTreeMap<String, Vec<Publication>>,
    /// final model: editor text per doc (None = closed), disk content per doc
    pub editor: Vec<Option<String>>,
    pub disk: Vec<Option<String>>,
    /// last editor text of a doc that was closed while it differed from disk
    pub dirty_closed: Vec<Option<String>>,
    /// history index of the last didClose of each document
    pub close_seq: Vec<Option<usize>>,
    /// every didOpen/didChange/didClose sent, in order: (kind, doc); doc = usize::MAX for the probe document
    pub doc_notifs: Vec<(char, usize)>,
    /// per document: a reload's open-file re-sync certainly looked at the open-file state after
    /// the server had handled the document's last didClose (derived from the lock trace)
    pub close_reconciled_by_reload: Vec<bool>,
    pub uris: Vec<String>,
    pub root: PathBuf,
    /// probe ids
    pub tree_probe: Vec<(usize, i32)>,
    pub tree_probe2: Vec<(usize, i32)>,
    /// semantic probe: hover on the marker local of every document (the tree probe reads the text
    /// the VFS holds, this one reads what the index knows about it)
    pub sem_probe: Vec<(usize, i32)>,
    /// the last .emmyrc.json written excludes `**/deep/**` from the workspace
    pub ignore_deep_final: bool,
    pub editor_at_probe: Vec<Option<String>>,
    pub disk_at_probe: Vec<Option<String>>,
    pub probe_start_seq: usize,
    /// C30: canonical fresh diagnosis of each open document's text (None = not computed)
    pub reference_diags: Vec<Option<Vec<String>>>,
    pub hover_probe: Option<i32>,
    pub fresh_probe: Option<i32>,
    pub shutdown_id: Option<i32>,
    pub init_id: i32,
    pub pre_init_id: Option<i32>,
    pub server_result: Option<String>,
    pub server_exited: bool,
    pub watchdog_fired: bool,
    pub sim_ms: u64,
    pub counters: BTreeMap<&'static str, u64>,
    pub unanswered_server_requests: usize,
    pub server_request_methods: BTreeMap<String, u64>,
    pub panics: Vec<String>,
    // from the controller
    pub decisions: Vec<u32>,
    pub stall_class: String,
    pub wait_graph: Vec<String>,
    pub order_edges: Vec<(String, String)>,
    pub reacquire: Vec<String>,
    pub reacquire_sites: Vec<String>,
    pub trace_digest: String,
    pub picks: u64,
    pub nontrivial_picks: u64,
    pub non_fifo_picks: u64,
    pub yields: u64,
    pub lock_events: u64,
    pub max_queue: usize,
    pub lock_probes: BTreeMap<&'static str, u64>,
}

struct PendingAnswer {
    id: lsp_server::RequestId,
    method: String,
    due_ms: u64,
    how: u8, // 0 ok, 1 error, 2 duplicate
    params: Value,
}

struct Client {
    spec: RunSpec,
    root: PathBuf,
    paths: Vec<PathBuf>,
    emmyrc_path: PathBuf,
    tx: UnboundedSender<Message>,
    rx: crossbeam_channel::Receiver<Message>,
    start: tokio::time::Instant,
    out: Outcome,
    watch_q: Vec<(WatchTarget, u32)>,
    touched: Vec<WatchTarget>,
    ev_serial: u32,
    /// per path: serial of the event describing its last mutation / of the event sent last for it
    last_enqueued: Vec<(WatchTarget, u32)>,
    last_sent: Vec<(WatchTarget, u32)>,
    pending: Vec<PendingAnswer>,
    fault_rng: Rng,
    faults_on: bool,
    cfg_version: u32,
    next_probe_id: i32,
    /// a LoadWorkspace progress was created and the watcher re-registration that ends a reload has not been seen yet
    reload_in_progress: bool,
    register_seen: u32,
    /// LSP document version per document: starts at a small number on didOpen (editors restart the
    /// count for a re-opened document), increases with every didChange of that session
    doc_version: Vec<i32>,
    /// how often each document was opened (the start version of a session depends on it)
    open_count: Vec<u32>,
}


pub fn scratch_base() -> PathBuf {
    if let Ok(p) = std::env::var("VERIF_SCRATCH") {
        return PathBuf::from(p);
    }
    let shm = Path::new("/dev/shm");
    if shm.is_dir() {
        PathBuf::from("/dev/shm/verif-scratch")
    } else {
        PathBuf::from("/tmp/verif-scratch")
    }
}

/// Directory of a run: a pure function of the seed (paths end up in URIs and therefore in hash
/// iteration orders, so a replay must use the same path). Exclusive ownership through mkdir.
pub struct RunDir(pub PathBuf);

impl RunDir {
    pub fn acquire(tag: &str, seed: u64) -> RunDir {
        let base = scratch_base();
        let _ = std::fs::create_dir_all(&base);
        // two levels: spreads directory-lock contention between worker processes
        let shard = base.join(format!("{:02x}", seed & 0xff));
        let _ = std::fs::create_dir_all(&shard);
        let dir = shard.join(format!("{tag}-{seed:016x}"));
        let mut spins = 0u32;
        loop {
            match std::fs::create_dir(&dir) {
                Ok(()) => break,
                Err(e) if e.kind() == std::io::ErrorKind::AlreadyExists => {
                    // owned by a live process? (pid file) otherwise steal
                    let owner = std::fs::read_to_string(dir.join(".owner")).ok();
                    let alive = owner
                        .as_deref()
                        .and_then(|s| s.trim().parse::<u32>().ok())
                        .map(|pid| pid != std::process::id() && Path::new(&format!("/proc/{pid}")).exists())
                        .unwrap_or(false);
                    if !alive || spins > 3000 {
                        let _ = std::fs::remove_dir_all(&dir);
                    } else {
                        std::thread::sleep(Duration::from_millis(10));
                    }
                    spins += 1;
                }
                Err(e) => panic!("harness: cannot create {dir:?}: {e}"),
            }
        }
        let _ = std::fs::write(dir.join(".owner"), std::process::id().to_string());
        RunDir(dir)
    }
}

impl Drop for RunDir {
    fn drop(&mut self) {
        let _ = std::fs::remove_dir_all(&self.0);
    }
}

fn write_file(path: &Path, text: &str) {
    if let Some(p) = path.parent() {
        let _ = std::fs::create_dir_all(p);
    }
    std::fs::write(path, text).expect("harness: write scratch file");
}

fn emmyrc_json(interval: Option<u64>, enable_reindex: bool, reindex_duration: u64) -> String {
    emmyrc_json_full(interval, enable_reindex, reindex_duration, false)
}

fn emmyrc_json_full(interval: Option<u64>, enable_reindex: bool, reindex_duration: u64, ignore_deep: bool) -> String {
    let mut diag = serde_json::Map::new();
    if let Some(i) = interval {
        diag.insert("diagnosticInterval".into(), json!(i));
    }
    json!({
        "diagnostics": Value::Object(diag),
        "workspace": {
            "enableReindex": enable_reindex,
            "reindexDuration": reindex_duration,
            "ignoreGlobs": if ignore_deep { json!(["**/deep/**"]) } else { json!([]) },
        },
    })
    .to_string()
}

impl Client {
    fn now_ms(&self) -> u64 {
        (tokio::time::Instant::now() - self.start).as_millis() as u64
    }

    fn count(&mut self, k: &'static str) {
        *self.out.counters.entry(k).or_insert(0) += 1;
    }

    fn send(&mut self, msg: Message) {
        let t = self.now_ms();
        if std::env::var("VERIF_LS_TRACE").is_ok() {
            eprintln!("  client sends {}", serde_json::to_string(&msg).unwrap_or_default().chars().take(110).collect::<String>());
        }
        self.out.history.push(HEvent { t_ms: t, dir: Dir::C2S, msg: msg.clone() });
        let _ = self.tx.send(msg);
    }

    fn send_request(&mut self, id: i32, method: &str, params: Option<Value>, kind: &'static str) {
        let seq = self.out.history.len();
        let t = self.now_ms();
        self.out.sent.insert(id, SentReq { method: method.to_string(), kind, seq, t_ms: t });
        let mut msg = proto::request(id, method, params);
        if let (Message::Request(r), Value::String(sid)) = (&mut msg, proto::wire_id(id)) {
            r.id = sid.into();
        }
        self.send(msg);
    }

    fn uri(&self, d: usize) -> String {
        self.out.uris[d].clone()
    }

    /// Read everything the server has sent so far.
    fn drain(&mut self) {
        while let Ok(msg) = self.rx.try_recv() {
            let t = self.now_ms();
            let seq = self.out.history.len();
            self.out.history.push(HEvent { t_ms: t, dir: Dir::S2C, msg: msg.clone() });
            match msg {
                Message::Response(resp) => {
                    let id = match proto::internal_id(&resp.id.to_string()) {
                        Some(i) => i,
                        None => {
                            self.out.alien_responses.push(resp);
                            continue;
                        }
                    };
                    if self.out.sent.contains_key(&id) || id == self.out.init_id {
                        self.out.responses.entry(id).or_default().push((seq, resp));
                    } else {
                        self.out.alien_responses.push(resp);
                    }
                }
                Message::Notification(n) => {
                    if n.method == "textDocument/publishDiagnostics" {
                        let uri = n.params.get("uri").and_then(|u| u.as_str()).unwrap_or("").to_string();
                        let diags = n
                            .params
                            .get("diagnostics")
                            .and_then(|d| d.as_array())
                            .cloned()
                            .unwrap_or_default();
                        self.out.publishes.entry(uri).or_default().push(Publication {
                            seq,
                            t_ms: t,
                            diagnostics: diags,
                        });
                    }
                }
                Message::Request(req) => {
                    *self.out.server_request_methods.entry(req.method.clone()).or_insert(0) += 1;
                    if req.method == "window/workDoneProgress/create" && req.params.get("token").and_then(|t| t.as_i64()) == Some(0) && self.register_seen >= 1 {
                        self.reload_in_progress = true;
                        self.count("probe.reload_observed_in_progress");
                    }
                    if req.method == "client/registerCapability" {
                        self.register_seen += 1;
                        self.reload_in_progress = false;
                    }
                    // decide how (and when) the client answers
                    let base = self.spec.swarm.client_latency_ms;
                    let (mut due, mut how) = (t + base, 0u8);
                    if self.faults_on
                        && self.spec.swarm.client_fault_permille > 0
                        && self.fault_rng.below(1000) < self.spec.swarm.client_fault_permille as u64
                    {
                        match self.fault_rng.below(6) {
                            5 => {
                                how = 3;
                                self.count("fault.client_answer_wrong_shape");
                            }
                            0 => {
                                due = t + 1000;
                                self.count("fault.client_answer_late_1s");
                            }
                            1 => {
                                due = t + 6000;
                                self.count("fault.client_answer_late_6s");
                            }
                            2 => {
                                how = 1;
                                self.count("fault.client_answer_error");
                            }
                            3 => {
                                how = 2;
                                self.count("fault.client_answer_duplicate");
                            }
                            _ => {
                                due = u64::MAX;
                                self.count("fault.client_answer_withheld_until_settle");
                            }
                        }
                    }
                    self.pending.push(PendingAnswer {
                        id: req.id.clone(),
                        method: req.method.clone(),
                        due_ms: due,
                        how,
                        params: req.params.clone(),
                    });
                }
            }
        }
        self.answer_due();
    }

    fn answer_value(&self, method: &str, params: &Value) -> Value {
        match method {
            "workspace/configuration" => {
                let n = params.get("items").and_then(|i| i.as_array()).map(|a| a.len()).unwrap_or(1);
                let item = if self.cfg_version == 0 {
                    Value::Null
                } else {
                    // only a timing knob changes: enough to make the client config "different"
                    json!({"workspace": {"reindexDuration": 1000 + self.cfg_version as u64}})
                };
                Value::Array(vec![item; n])
            }
            "workspace/applyEdit" => json!({"applied": true}),
            // every other prompt is accepted: the rename handler then goes on to `workspace/applyEdit`
            "window/showMessageRequest" => match params.get("actions").and_then(|a| a.as_array()).and_then(|a| a.first()) {
                Some(first) if self.out.server_request_methods.get("window/showMessageRequest").copied().unwrap_or(0) % 2 == 1 => first.clone(),
                _ => Value::Null,
            },
            _ => Value::Null,
        }
    }

    fn answer_due(&mut self) {
        let now = self.now_ms();
        let mut i = 0;
        while i < self.pending.len() {
            if self.pending[i].due_ms <= now {
                let p = self.pending.remove(i);
                let resp = if p.how == 1 {
                    Response::new_err(p.id.clone(), -32603, "simulated client error".into())
                } else if p.how == 3 {
                    // a result of the wrong JSON shape for the method (a buggy or foreign client)
                    let v = match self.fault_rng.below(5) {
                        0 => json!("oops"),
                        1 => json!(42),
                        2 => json!([42, "x"]),
                        3 => json!({"unexpected": {"deep": [1, 2, 3]}}),
                        _ => json!([{"workspace": 7, "diagnostics": "yes", "runtime": []}]),
                    };
                    Response::new_ok(p.id.clone(), v)
                } else {
                    Response::new_ok(p.id.clone(), self.answer_value(&p.method, &p.params))
                };
                self.send(Message::Response(resp.clone()));
                if p.how == 2 {
                    self.send(Message::Response(resp));
                }
            } else {
                i += 1;
            }
        }
    }

    fn next_due(&self) -> Option<u64> {
        self.pending.iter().map(|p| p.due_ms).filter(|d| *d != u64::MAX).min()
    }

    /// Sleep `ms` of simulated time, polling the server's output at most every `poll` ms and
    /// answering server requests when they fall due.
    async fn sleep_polling(&mut self, ms: u64, poll: u64) {
        let end = self.now_ms() + ms;
        loop {
            self.drain();
            let now = self.now_ms();
            if now >= end {
                break;
            }
            let mut step = (end - now).min(poll);
            if let Some(due) = self.next_due() {
                if due > now {
                    step = step.min(due - now);
                }
            }
            tokio::time::sleep(Duration::from_millis(step.max(1))).await;
        }
    }

    async fn gap(&mut self, gap: &Gap) {
        match gap {
            Gap::Zero => {}
            Gap::StallMainAt { n } => {
                crate::controller::with_current(|s| s.main_countdown = *n);
                self.count("fault.main_loop_stall_armed");
            }
            Gap::Yield(n) => {
                for _ in 0..*n {
                    tokio::task::yield_now().await;
                }
                self.drain();
            }
            Gap::SleepMs(ms) => self.sleep_polling(*ms, 50).await,
            Gap::Until { what, max_ms, hold, advance_ms, main_stall_at } => {
                crate::controller::with_current(|s| s.arm_with(*what, *hold, *main_stall_at));
                let end = self.now_ms() + *max_ms;
                loop {
                    self.drain();
                    if crate::controller::with_current(|s| s.trigger_fired()).unwrap_or(true) {
                        self.count("probe.trace_trigger_hit");
                        if *advance_ms > 0 {
                            self.count("fault.clock_jump_inside_critical_section");
                            tokio::time::advance(Duration::from_millis(*advance_ms)).await;
                            self.drain();
                        }
                        break;
                    }
                    let now = self.now_ms();
                    if now >= end {
                        self.count("probe.trace_trigger_timed_out");
                        break;
                    }
                    let mut step = (end - now).min(50);
                    if let Some(due) = self.next_due() {
                        if due > now {
                            step = step.min(due - now);
                        }
                    }
                    let _ = tokio::time::timeout(Duration::from_millis(step.max(1)), crate::controller::TriggerFired).await;
                }
                crate::controller::with_current(|s| s.disarm());
            }
            Gap::AdvanceMs(ms) => {
                self.count("fault.clock_jump");
                tokio::time::advance(Duration::from_millis(*ms)).await;
                self.drain();
            }
        }
    }

    /// Every disk mutation enqueues the watcher event that reports it. The event carries a serial
    /// number in the upper bits of its type word (`typ | serial << 8`), so that the settle phase
    /// knows whether the event that describes the *last* mutation of a path was also the last one
    /// sent for that path.
    fn enqueue_watch(&mut self, target: WatchTarget, typ: u32) {
        if !self.touched.contains(&target) {
            self.touched.push(target.clone());
        }
        self.ev_serial += 1;
        let serial = self.ev_serial;
        self.last_enqueued.retain(|(t, _)| *t != target);
        self.last_enqueued.push((target.clone(), serial));
        self.watch_q.push((target, typ | (serial << 8)));
    }

    fn target_uri(&self, t: &WatchTarget) -> String {
        match t {
            WatchTarget::Doc(d) => self.uri(*d),
            WatchTarget::Emmyrc => proto::uri_of(&self.emmyrc_path),
        }
    }

    fn send_watch(&mut self, evs: &[(WatchTarget, u32)]) {
        if evs.is_empty() {
            return;
        }
        let changes: Vec<Value> =
            evs.iter().map(|(t, typ)| json!({"uri": self.target_uri(t), "type": typ & 0xff})).collect();
        for (t, typ) in evs {
            self.last_sent.retain(|(x, _)| x != t);
            self.last_sent.push((t.clone(), typ >> 8));
        }
        for (t, _) in evs {
            if let WatchTarget::Doc(d) = t {
                if self.out.editor[*d].is_some() {
                    self.count("probe.watcher_event_for_open_file");
                }
            }
        }
        self.send(proto::notification("workspace/didChangeWatchedFiles", json!({"changes": changes})));
    }

    fn act(&mut self, action: &Action) {
        match action {
            Action::Open { doc, text } => {
                if *doc >= self.paths.len() || self.out.editor[*doc].is_some() {
                    return;
                }
                self.out.editor[*doc] = Some(text.clone());
                self.out.dirty_closed[*doc] = None;
                self.out.doc_notifs.push(('o', *doc));
                let uri = self.uri(*doc);
                // first session of a document starts at 1; later sessions start lower or higher
                // than where the previous one ended (0, 1, or a large number), never related to it
                self.open_count[*doc] += 1;
                self.doc_version[*doc] = match self.open_count[*doc] % 4 {
                    1 => 1,
                    2 => 0,
                    3 => 40,
                    _ => 1,
                };
                let version = self.doc_version[*doc];
                self.send(proto::notification(
                    "textDocument/didOpen",
                    json!({"textDocument": {"uri": uri, "languageId": "lua", "version": version, "text": text}}),
                ));
            }
            Action::Change { doc, text } => {
                if *doc >= self.paths.len() || self.out.editor[*doc].is_none() {
                    return;
                }
                if self.reload_in_progress {
                    self.count("probe.change_sent_inside_reload_window");
                }
                self.out.doc_notifs.push(('c', *doc));
                self.out.editor[*doc] = Some(text.clone());
                let uri = self.uri(*doc);
                self.doc_version[*doc] += 1;
                let version = self.doc_version[*doc];
                self.send(proto::notification(
                    "textDocument/didChange",
                    json!({"textDocument": {"uri": uri, "version": version}, "contentChanges": [{"text": text}]}),
                ));
            }
            Action::Save { doc } => {
                if *doc >= self.paths.len() || !self.spec.docs[*doc].in_workspace {
                    return;
                }
                let Some(text) = self.out.editor[*doc].clone() else { return };
                let existed = self.out.disk[*doc].is_some();
                write_file(&self.paths[*doc], &text);
                self.out.disk[*doc] = Some(text);
                self.enqueue_watch(WatchTarget::Doc(*doc), if existed { 2 } else { 1 });
                let uri = self.uri(*doc);
                self.send(proto::notification("textDocument/didSave", json!({"textDocument": {"uri": uri}})));
            }
            Action::Close { doc } => {
                if *doc >= self.paths.len() || self.out.editor[*doc].is_none() {
                    return;
                }
                if self.reload_in_progress {
                    self.count("probe.close_sent_inside_reload_window");
                    if self.out.editor.iter().filter(|e| e.is_some()).count() == 1 {
                        self.count("probe.last_open_doc_closed_inside_reload_window");
                    }
                }
                let text = self.out.editor[*doc].take();
                if text != self.out.disk[*doc] {
                    self.out.dirty_closed[*doc] = text;
                }
                self.out.close_seq[*doc] = Some(self.out.history.len());
                self.out.doc_notifs.push(('x', *doc));
                let uri = self.uri(*doc);
                self.send(proto::notification("textDocument/didClose", json!({"textDocument": {"uri": uri}})));
            }
            Action::Request { id, method, doc, line, ch, params } => {
                let d = (*doc).min(self.paths.len() - 1);
                let uri = self.uri(d);
                let known = proto::REQUEST_METHODS.contains(&method.as_str());
                let (p, kind) = match params {
                    ParamKind::Valid => (
                        Some(proto::valid_params(method, &uri, *line, *ch)),
                        if known { "valid" } else { "unknown-method" },
                    ),
                    ParamKind::Malformed(v) => (
                        proto::malformed_params(*v, &uri),
                        if known { "malformed" } else { "unknown-method" },
                    ),
                };
                self.send_request(*id, method, p, kind);
            }
            Action::Cancel { id } => {
                let state = if !self.out.sent.contains_key(id) {
                    "fault.cancel_unknown_id"
                } else if self.out.responses.contains_key(id) {
                    "fault.cancel_answered_request"
                } else {
                    "fault.cancel_pending_request"
                };
                self.count(state);
                let mut wire = proto::wire_id(*id);
                if id % 5 == 4 {
                    // a cancellation under the *other* representation of the same digits: it names
                    // another id (nothing, or the twin request), never this one
                    self.count("fault.cancel_other_id_representation");
                    wire = match wire {
                        Value::Number(n) => Value::from(n.to_string()),
                        Value::String(t) => t.parse::<i64>().map(Value::from).unwrap_or(Value::String(t)),
                        other => other,
                    };
                }
                self.send(proto::notification("$/cancelRequest", json!({"id": wire})));
            }
            Action::ChangeConfig { version } => {
                self.cfg_version = *version;
                self.send(proto::notification("workspace/didChangeConfiguration", json!({"settings": null})));
            }
            Action::DiskWrite { doc, text } => {
                if *doc >= self.paths.len() || !self.spec.docs[*doc].in_workspace {
                    return;
                }
                let existed = self.out.disk[*doc].is_some();
                write_file(&self.paths[*doc], text);
                self.out.disk[*doc] = Some(text.clone());
                self.count("fault.external_disk_write");
                self.enqueue_watch(WatchTarget::Doc(*doc), if existed { 2 } else { 1 });
            }
            Action::DiskDelete { doc } => {
                if *doc >= self.paths.len() || self.out.disk[*doc].is_none() {
                    return;
                }
                let _ = std::fs::remove_file(&self.paths[*doc]);
                self.out.disk[*doc] = None;
                self.count("fault.external_disk_delete");
                self.enqueue_watch(WatchTarget::Doc(*doc), 3);
            }
            Action::Watch { n, dup, reverse } => {
                let k = (*n).min(self.watch_q.len());
                let mut evs: Vec<(WatchTarget, u32)> = self.watch_q.drain(..k).collect();
                if *reverse && evs.len() > 1 {
                    evs.reverse();
                    self.count("fault.watcher_reordered");
                }
                self.send_watch(&evs);
                if *dup && !evs.is_empty() {
                    self.count("fault.watcher_duplicated");
                    self.send_watch(&evs);
                }
            }
            Action::EmmyrcWrite { diagnostic_interval, enable_reindex, reindex_duration, ignore_deep } => {
                let existed = self.emmyrc_path.exists();
                write_file(
                    &self.emmyrc_path,
                    &emmyrc_json_full(*diagnostic_interval, *enable_reindex, *reindex_duration, *ignore_deep),
                );
                self.out.ignore_deep_final = *ignore_deep;
                if *ignore_deep {
                    self.count("fault.workspace_membership_flip");
                }
                self.count("fault.emmyrc_rewritten");
                self.enqueue_watch(WatchTarget::Emmyrc, if existed { 2 } else { 1 });
            }
            Action::StrayResponse { id } => {
                self.count("fault.stray_response");
                self.send(Message::Response(Response::new_ok((*id).into(), Value::Null)));
            }
            Action::RenameFile { from, to, require_closed } => {
                let (from, to) = (*from, *to);
                if from >= self.paths.len() || to >= self.paths.len() || from == to {
                    return;
                }
                if self.out.disk[from].is_none() || self.out.disk[to].is_some() {
                    return;
                }
                if !self.spec.docs[from].in_workspace || !self.spec.docs[to].in_workspace {
                    return;
                }
                if *require_closed && (self.out.editor[from].is_some() || self.out.editor[to].is_some()) {
                    return;
                }
                if let Some(p) = self.paths[to].parent() {
                    let _ = std::fs::create_dir_all(p);
                }
                if std::fs::rename(&self.paths[from], &self.paths[to]).is_err() {
                    return;
                }
                self.out.disk[to] = self.out.disk[from].take();
                self.count("fault.file_renamed");
                if self.out.editor[from].is_some() || self.out.editor[to].is_some() {
                    self.count("probe.rename_touches_open_document");
                }
                self.enqueue_watch(WatchTarget::Doc(from), 3);
                self.enqueue_watch(WatchTarget::Doc(to), 1);
                let (old_uri, new_uri) = (self.uri(from), self.uri(to));
                self.send(proto::notification(
                    "workspace/didRenameFiles",
                    json!({"files": [{"oldUri": old_uri, "newUri": new_uri}]}),
                ));
            }
            Action::MiscNotification { kind } => match kind % 4 {
                0 => self.send(proto::notification("$/setTrace", json!({"value": "verbose"}))),
                1 => self.send(proto::notification("$/setTrace", json!({"value": 7}))),
                2 => self.send(proto::notification("workspace/didChangeWorkspaceFolders", json!({"event": {"added": [], "removed": []}}))),
                _ => self.send(proto::notification("$/unknownNotification", Value::Null)),
            },
        }
    }

    /// Wait (bounded) until request `id` has a response.
    async fn await_response(&mut self, id: i32, budget_ms: u64) -> bool {
        let end = self.now_ms() + budget_ms;
        loop {
            self.drain();
            if self.out.responses.contains_key(&id) {
                return true;
            }
            if self.now_ms() >= end {
                return false;
            }
            tokio::time::sleep(Duration::from_millis(250)).await;
        }
    }
}

fn null_logger() {
    struct Null;
    impl log::Log for Null {
        fn enabled(&self, _: &log::Metadata) -> bool {
            false
        }
        fn log(&self, _: &log::Record) {}
        fn flush(&self) {}
    }
    static NULL: Null = Null;
    // debugging aid for replays (never used by checks): VERIF_LOG=1 prints the server's own log
    struct Stderr;
    impl log::Log for Stderr {
        fn enabled(&self, _: &log::Metadata) -> bool {
            true
        }
        fn log(&self, r: &log::Record) {
            eprintln!("[server {}] {}", r.level(), r.args());
        }
        fn flush(&self) {}
    }
    static STDERR: Stderr = Stderr;
    if std::env::var_os("VERIF_LOG").is_some() {
        let _ = log::set_logger(&STDERR);
        log::set_max_level(log::LevelFilter::Debug);
        return;
    }
    let _ = log::set_logger(&NULL);
    log::set_max_level(log::LevelFilter::Off);
}

/// Process-wide environment the server reads: an empty HOME so no real user configuration or
/// log directory is touched.
pub fn prepare_process_env() {
    let home = scratch_base().join(format!("home-{}", std::process::id()));
    let _ = std::fs::create_dir_all(&home);
    unsafe {
        std::env::set_var("HOME", &home);
        std::env::set_var("XDG_CONFIG_HOME", home.join(".config"));
        std::env::set_var("XDG_DATA_HOME", home.join(".data"));
        std::env::remove_var("EMMYLUALS_CONFIG");
        // the server shells out to `luarocks` when it loads a configuration: keep the lookup
        // short and make sure no real tool is ever found (an external process would be a source
        // of nondeterminism outside the simulator)
        std::env::set_var("PATH", "/nonexistent-verif-path");
    }
    null_logger();
    simcore::panics::install_quiet_hook();
}

pub fn cleanup_process_env() {
    let home = scratch_base().join(format!("home-{}", std::process::id()));
    let _ = std::fs::remove_dir_all(home);
}

/// Execute one run. Must be called on a fresh thread (see `simcore::on_fresh_thread`).
pub fn execute(spec: &RunSpec) -> Outcome {
    execute_opts(spec, false)
}

pub fn execute_opts(spec: &RunSpec, capture_sites: bool) -> Outcome {
    let _ = simcore::panics::take();
    let dir = RunDir::acquire("ls", spec.seed);
    let root = dir.0.join("ws");
    std::fs::create_dir_all(&root).expect("mkdir ws");
    let paths: Vec<PathBuf> = spec.docs.iter().map(|d| root.join(&d.rel)).collect();
    for (d, p) in spec.docs.iter().zip(&paths) {
        if let Some(t) = &d.on_disk {
            write_file(p, t);
        }
    }
    let emmyrc_path = root.join(".emmyrc.json");
    if spec.swarm.emmyrc_initial {
        write_file(
            &emmyrc_path,
            &emmyrc_json(spec.swarm.diagnostic_interval, spec.swarm.enable_reindex, spec.swarm.reindex_duration),
        );
    }

    let shared: SharedRef = Rc::new(RefCell::new(Shared::new(spec.sched.clone(), spec.seed ^ spec.sched_salt.wrapping_mul(0x9e3779b97f4a7c15), spec.decisions.clone())));
    shared.borrow_mut().capture_backtraces = capture_sites;
    tokio::verif_seam::install(Box::new(SimController(shared.clone())));
    crate::controller::set_current(Some(shared.clone()));

    let rt = tokio::runtime::Builder::new_current_thread()
        .enable_time()
        .start_paused(true)
        .event_interval(spec.sched.event_interval.max(1))
        .build()
        .expect("runtime");

    let (server_conn, client_conn) = Connection::memory();
    let (inbox_tx, inbox_rx) = tokio::sync::mpsc::unbounded_channel::<Message>();

    let root_uri = proto::uri_of(&root);
    let uris: Vec<String> = paths.iter().map(|p| proto::uri_of(p)).collect();
    let init_id = 1;
    let mut out = Outcome {
        editor: vec![None; spec.docs.len()],
        disk: spec.docs.iter().map(|d| d.on_disk.clone()).collect(),
        dirty_closed: vec![None; spec.docs.len()],
        close_seq: vec![None; spec.docs.len()],
        uris: uris.clone(),
        root: root.clone(),
        init_id,
        ..Default::default()
    };

    // Handshake messages are pre-loaded: `initialize_start/finish` read them with blocking recv.
    let mut init_params = proto::initialize_params(&root_uri, &spec.swarm);
    if spec.swarm.bad_initialize {
        init_params["capabilities"] = json!({"workspace": "yes", "textDocument": 3});
    }
    let mut pre: Vec<Message> = Vec::new();
    if spec.swarm.request_before_initialize {
        out.pre_init_id = Some(2);
        pre.push(proto::request(2, "textDocument/hover", Some(proto::valid_params("textDocument/hover", &root_uri, 0, 0))));
    }
    pre.push(proto::request(init_id, "initialize", Some(init_params)));
    pre.push(proto::notification("initialized", json!({})));
    for m in &pre {
        out.history.push(HEvent { t_ms: 0, dir: Dir::C2S, msg: m.clone() });
        if let Message::Request(r) = m {
            let id: i32 = r.id.to_string().parse().unwrap_or(0);
            out.sent.insert(id, SentReq { method: r.method.clone(), kind: "handshake", seq: out.history.len() - 1, t_ms: 0 });
        }
        client_conn.sender.send(m.clone()).expect("preload");
    }

    emmylua_ls::verif_hooks::inject(server_conn, inbox_rx);
    let cmd_args = emmylua_ls::CmdArgs {
        communication: emmylua_ls::Communication::Stdio,
        ip: "127.0.0.1".into(),
        port: 0,
        log_level: emmylua_ls::LogLevel::Error,
        log_path: emmylua_ls::NoneableString(None),
        resources_path: emmylua_ls::NoneableString(None),
        load_stdlib: emmylua_ls::CmdBool(spec.swarm.load_stdlib),
        editor: None,
    };

    let spec2 = spec.clone();
    let rx = client_conn.receiver.clone();
    let client_sender_keepalive = client_conn.sender.clone();
    let shared_for_ids = shared.clone();
    let outcome = rt.block_on(async move {
        let start = tokio::time::Instant::now();
        let server = tokio::spawn(async move {
            let r = emmylua_ls::run_ls(cmd_args).await;
            r.map_err(|e| e.to_string())
        });
        shared_for_ids.borrow_mut().main_task_raw = server.id().to_string().parse::<u64>().unwrap_or(0);
        let client = tokio::spawn(async move {
            let fault_rng = Rng::stream(spec2.seed, "client-faults");
            let spec2_docs = spec2.docs.len();
            let mut c = Client {
                spec: spec2,
                root,
                paths,
                emmyrc_path,
                tx: inbox_tx,
                rx,
                start,
                out,
                watch_q: Vec::new(),
                touched: Vec::new(),
                ev_serial: 0,
                last_enqueued: Vec::new(),
                last_sent: Vec::new(),
                pending: Vec::new(),
                fault_rng,
                faults_on: true,
                cfg_version: 0,
                next_probe_id: 50_000,
                reload_in_progress: false,
                register_seen: 0,
                doc_version: vec![0; spec2_docs],
                open_count: vec![0; spec2_docs],
            };
            let fut = client_main(&mut c, server);
            match tokio::time::timeout(Duration::from_secs(3600), fut).await {
                Ok(()) => {}
                Err(_) => c.out.watchdog_fired = true,
            }
            c.out.sim_ms = c.now_ms();
            let _ = &c.root;
            c.out
        });
        client.await
    });
    drop(client_sender_keepalive);
    drop(client_conn);

    let mut out = match outcome {
        Ok(o) => o,
        Err(e) => {
            let mut o = Outcome::default();
            o.server_result = Some(format!("harness: client task failed: {e}"));
            o
        }
    };
    // snapshot the blocked state before the runtime is dropped (dropping it drops every task and
    // with them the guards they hold)
    {
        let s = shared.borrow();
        out.stall_class = s.stall_class();
        out.wait_graph = s.wait_for_graph();
    }
    out.close_reconciled_by_reload = reconciled_closes(&shared.borrow(), &out);
    let frozen = shared.borrow().events.len();
    let frozen_digest = shared.borrow().digest.0;
    let frozen_lock_events = shared.borrow().stats.lock_events;
    drop(rt);
    let _ = tokio::verif_seam::uninstall();
    crate::controller::set_current(None);
    out.panics = simcore::panics::take();

    let mut s = shared.borrow_mut();
    s.events.truncate(frozen);
    s.digest.0 = frozen_digest; // teardown events (runtime drop) are not part of the execution
    s.stats.lock_events = frozen_lock_events;
    out.decisions = s.decisions.clone();
    out.order_edges = s
        .order_edges
        .iter()
        .map(|(a, am, b, bm)| (format!("{a}.{am:?}"), format!("{b}.{bm:?}")))
        .collect();
    out.reacquire = s.reacquire.iter().cloned().collect();
    out.reacquire_sites = s.reacquire_sites.iter().cloned().collect();
    out.picks = s.stats.picks;
    out.nontrivial_picks = s.stats.nontrivial_picks;
    out.non_fifo_picks = s.stats.non_fifo_picks;
    out.yields = s.stats.yields;
    out.lock_events = s.stats.lock_events;
    out.max_queue = s.stats.max_queue;
    out.lock_probes = s.probes.clone();
    // trace digest: scheduler decisions + lock trace + every message with its simulated time
    let mut d = Digest(s.digest.0);
    for e in &out.history {
        d.u64(e.t_ms);
        d.str(match e.dir {
            Dir::C2S => ">",
            Dir::S2C => "<",
        });
        d.str(&serde_json::to_string(&e.msg).unwrap_or_default());
    }
    out.trace_digest = d.hex();
    out
}

async fn client_main(c: &mut Client, server: tokio::task::JoinHandle<Result<(), String>>) {
    let mut server = server;
    let script = c.spec.script.clone();

    if c.spec.swarm.bad_initialize {
        // only the handshake is judged: give the server time, then collect what it said
        c.sleep_polling(5_000, 250).await;
        finish_server(c, &mut server, 1_000).await;
        return;
    }

    for step in &script {
        c.gap(&step.gap).await;
        c.act(&step.action);
        c.drain();
    }

    // ---- settle: faults stop, everything outstanding is answered, every disk change is
    // eventually reported, then wait longer than every internal timeout.
    c.faults_on = false;
    for p in c.pending.iter_mut() {
        p.due_ms = 0;
        p.how = 0;
    }
    c.drain();
    let rest: Vec<(WatchTarget, u32)> = c.watch_q.drain(..).collect();
    c.send_watch(&rest);
    c.sleep_polling(3_000, 250).await;
    // final consistent event per touched path (the last change to a path is always reported)
    let touched = c.touched.clone();
    let mut finals = Vec::new();
    for t in touched {
        // The watcher owes the server one thing: the last event it sends for a path describes the
        // path's last change. Everything queued has just been delivered in order, so that already
        // holds unless a batch was delivered reversed; only then a final event follows. (A
        // redundant final event for every path would paper over a server that applies two
        // notifications about one path in the wrong order.)
        let enq = c.last_enqueued.iter().find(|(x, _)| *x == t).map(|x| x.1);
        let sent = c.last_sent.iter().find(|(x, _)| *x == t).map(|x| x.1);
        if enq.is_some() && enq == sent {
            c.count("probe.path_settled_without_final_event");
            continue;
        }
        c.count("probe.final_watcher_event_needed");
        let exists = match &t {
            WatchTarget::Doc(d) => c.out.disk[*d].is_some(),
            WatchTarget::Emmyrc => c.emmyrc_path.exists(),
        };
        finals.push((t, if exists { 2 } else { 3 }));
    }
    c.send_watch(&finals);
    c.sleep_polling(120_000, 250).await;

    // ---- probe phase
    c.out.probe_start_seq = c.out.history.len();
    c.out.editor_at_probe = c.out.editor.clone();
    c.out.disk_at_probe = c.out.disk.clone();
    if c.spec.prop == "C30" && !c.spec.swarm.pull_diagnostics {
        let mut refs = Vec::new();
        for d in 0..c.paths.len() {
            refs.push(match (&c.out.editor[d], c.spec.docs[d].in_workspace) {
                (Some(text), true) => Some(crate::c30::reference(
                    &c.root,
                    &c.emmyrc_path,
                    &c.out.uris[d],
                    text,
                    c.spec.swarm.load_stdlib,
                )),
                _ => None,
            });
        }
        c.out.reference_diags = refs;
    }
    let ndocs = c.paths.len();
    for d in 0..ndocs {
        let id = c.next_probe_id;
        c.next_probe_id += 1;
        let uri = c.uri(d);
        c.send_request(id, "emmy/syntaxTree", Some(json!({"uri": uri})), "probe");
        c.out.tree_probe.push((d, id));
        let hid = c.next_probe_id;
        c.next_probe_id += 1;
        c.send_request(hid, "textDocument/hover", Some(proto::valid_params("textDocument/hover", &uri, 0, 8)), "probe");
        c.out.sem_probe.push((d, hid));
    }
    // a fresh document needs both write locks; then hover on it
    let fresh_path = c.root.join("zz_probe_fresh.lua");
    let fresh_uri = proto::uri_of(&fresh_path);
    c.send(proto::notification(
        "textDocument/didOpen",
        json!({"textDocument": {"uri": fresh_uri, "languageId": "lua", "version": 1, "text": "local probe_fresh = 1\nreturn probe_fresh\n"}}),
    ));
    let hid = c.next_probe_id;
    c.next_probe_id += 1;
    c.send_request(hid, "textDocument/hover", Some(proto::valid_params("textDocument/hover", &fresh_uri, 0, 8)), "probe");
    c.out.hover_probe = Some(hid);
    let fid = c.next_probe_id;
    c.next_probe_id += 1;
    c.send_request(fid, "emmy/syntaxTree", Some(json!({"uri": fresh_uri})), "probe");
    c.out.fresh_probe = Some(fid);

    let probe_ids: Vec<i32> = c.out.tree_probe.iter().chain(c.out.sem_probe.iter()).map(|(_, i)| *i).chain([hid, fid]).collect();
    let mut all = true;
    for id in probe_ids {
        if !c.await_response(id, 300_000).await {
            all = false;
            break;
        }
    }
    c.out.unanswered_server_requests = c.pending.len();
    if !all {
        // the server is stuck: do not attempt an orderly shutdown
        return;
    }
    // second pass: rewrite closed on-disk documents externally, report it, probe again
    let mut rewritten = Vec::new();
    for d in 0..ndocs {
        if c.out.editor[d].is_none() && c.out.disk[d].is_some() && c.spec.docs[d].in_workspace {
            let text = crate::script::doc_text(d, 9000 + d as u32, 4);
            write_file(&c.paths[d], &text);
            c.out.disk[d] = Some(text);
            rewritten.push((WatchTarget::Doc(d), 2u32));
        }
    }
    if !rewritten.is_empty() {
        c.send_watch(&rewritten);
        c.sleep_polling(5_000, 250).await;
        for (t, _) in &rewritten {
            if let WatchTarget::Doc(d) = t {
                let id = c.next_probe_id;
                c.next_probe_id += 1;
                let uri = c.uri(*d);
                c.send_request(id, "emmy/syntaxTree", Some(json!({"uri": uri})), "probe");
                c.out.tree_probe2.push((*d, id));
            }
        }
        let ids: Vec<i32> = c.out.tree_probe2.iter().map(|(_, i)| *i).collect();
        for id in ids {
            if !c.await_response(id, 300_000).await {
                return;
            }
        }
    }
    c.send(proto::notification("textDocument/didClose", json!({"textDocument": {"uri": fresh_uri}})));
    c.sleep_polling(2_000, 250).await;

    // ---- shutdown
    let sid = c.next_probe_id;
    c.next_probe_id += 1;
    c.out.shutdown_id = Some(sid);
    c.send_request(sid, "shutdown", None, "probe");
    if c.await_response(sid, 60_000).await {
        c.send(proto::notification("exit", Value::Null));
    }
    finish_server(c, &mut server, 60_000).await;
}

async fn finish_server(c: &mut Client, server: &mut tokio::task::JoinHandle<Result<(), String>>, budget_ms: u64) {
    match tokio::time::timeout(Duration::from_millis(budget_ms), &mut *server).await {
        Ok(Ok(Ok(()))) => {
            c.out.server_exited = true;
            c.out.server_result = Some("ok".into());
        }
        Ok(Ok(Err(e))) => {
            c.out.server_exited = true;
            c.out.server_result = Some(format!("err: {e}"));
        }
        Ok(Err(join)) => {
            c.out.server_exited = true;
            c.out.server_result = Some(if join.is_panic() { "panic".into() } else { "cancelled".into() });
        }
        Err(_) => {
            c.out.server_result = Some("still-running".into());
        }
    }
    c.drain();
}

#[allow(dead_code)]
pub fn touched_set(_c: &BTreeSet<usize>) {}

/// Workers silence fd 2: the server prints logger chatter with `eprintln!` on every start.
pub fn quiet_stderr() {
    if std::env::var_os("VERIF_KEEP_STDERR").is_some() {
        return;
    }
    unsafe extern "C" {
        fn open(path: *const u8, flags: i32, ...) -> i32;
        fn dup2(a: i32, b: i32) -> i32;
    }
    unsafe {
        let fd = open(c"/dev/null".as_ptr() as *const u8, 1);
        if fd >= 0 {
            dup2(fd, 2);
        }
    }
}


/// For every document whose last notification was a didClose: did some workspace reload's
/// open-file re-sync read the open-file state *after* the main loop had applied that close?
/// Derived from the lock trace: the i-th didOpen/didChange/didClose the client sent is applied by
/// the i-th `WorkspaceManager` write acquisition of the main-loop task; a reload task is the task
/// holding the reload mutex (`Mutex<()>`), whose `WorkspaceManager` acquisitions are
/// W (snapshot), R.. (re-sync loop), R, W (watch registration).
fn reconciled_closes(s: &Shared, out: &Outcome) -> Vec<bool> {
    use tokio::verif_seam::LockOp;
    let n = out.editor.len();
    let mut res = vec![false; n];
    let (Some(main), Some(wm), Some(rl)) = (s.main_task(), s.lock_named("WorkspaceManager"), s.lock_named("()")) else {
        return res;
    };
    // event index of the i-th WM.W acquisition by the main task
    let mut main_w: Vec<usize> = Vec::new();
    // reload episodes: for each task, WM events while holding the reload mutex
    let mut holding_rl: std::collections::BTreeMap<usize, Vec<(usize, crate::controller::Mode)>> = Default::default();
    let mut last_sync_reads: Vec<(usize, usize)> = Vec::new();
    for (i, e) in s.events.iter().enumerate() {
        if e.op != LockOp::Acquired && !(e.op == LockOp::Released && e.lock == rl) {
            continue;
        }
        if e.lock == rl {
            match e.op {
                LockOp::Acquired => {
                    holding_rl.insert(e.task, Vec::new());
                }
                LockOp::Released => {
                    if let Some(evs) = holding_rl.remove(&e.task) {
                        // W, R.., R, W  -> the re-sync reads are the R's except the last one
                        let reads: Vec<usize> = evs.iter().filter(|(_, m)| *m == crate::controller::Mode::R).map(|(i, _)| *i).collect();
                        let ends_with_registration = evs.len() >= 3
                            && evs[evs.len() - 1].1 == crate::controller::Mode::W
                            && evs[evs.len() - 2].1 == crate::controller::Mode::R;
                        if ends_with_registration && reads.len() >= 2 && evs[0].1 == crate::controller::Mode::W {
                            // (snapshot taken at, last re-sync read at)
                            last_sync_reads.push((evs[0].0, reads[reads.len() - 2]));
                        }
                    }
                }
                _ => {}
            }
            continue;
        }
        if e.lock == wm {
            if e.task == main && e.mode == crate::controller::Mode::W {
                main_w.push(i);
            }
            if let Some(v) = holding_rl.get_mut(&e.task) {
                v.push((i, e.mode));
            }
        }
    }
    for d in 0..n {
        // index (in doc_notifs) of the last notification of d, if it is a close
        let Some(k) = out.doc_notifs.iter().rposition(|(_, dd)| *dd == d) else { continue };
        if out.doc_notifs[k].0 != 'x' {
            continue;
        }
        let Some(closed_at) = main_w.get(k) else { continue };
        // the didOpen this close belongs to: the document must have been open when the reload took
        // its snapshot (or already closed again), otherwise the reload never knew about it
        let Some(j) = out.doc_notifs[..k].iter().rposition(|(kind, dd)| *dd == d && *kind == 'o') else { continue };
        let Some(opened_at) = main_w.get(j) else { continue };
        res[d] = last_sync_reads.iter().any(|(snapshot, last_read)| opened_at < snapshot && closed_at < last_read);
    }
    res
}
