//! C30: after quiescence the last diagnostics published for each open workspace file equal a
//! fresh diagnosis of its current content; a removed file ends with an empty published set.

use std::path::Path;
use std::sync::Arc;

use serde_json::Value;

use crate::oracle::Violation;
use crate::run::Outcome;
use crate::script::RunSpec;

/// Diagnose `text` alone in a brand-new analysis configured from the same `.emmyrc.json`.
pub fn reference(root: &Path, emmyrc_path: &Path, uri: &str, text: &str, load_stdlib: bool) -> Vec<String> {
    use std::str::FromStr;
    let mut analysis = emmylua_code_analysis::EmmyLuaAnalysis::new();
    let files = if emmyrc_path.exists() { vec![emmyrc_path.to_path_buf()] } else { vec![] };
    let mut emmyrc = emmylua_code_analysis::load_configs(files, None);
    emmyrc.pre_process_emmyrc(root);
    analysis.update_config(Arc::new(emmyrc));
    if load_stdlib {
        analysis.init_std_lib(None);
    }
    analysis.add_main_workspace(root.to_path_buf());
    let Ok(uri) = lsp_types::Uri::from_str(uri) else { return vec!["<bad uri>".into()] };
    let Some(file_id) = analysis.update_file_by_uri(&uri, Some(text.to_string())) else {
        return vec!["<no file id>".into()];
    };
    let diags = analysis
        .diagnose_file(file_id, tokio_util::sync::CancellationToken::new())
        .unwrap_or_default();
    canon(&diags.iter().filter_map(|d| serde_json::to_value(d).ok()).collect::<Vec<_>>())
}

pub fn canon(diags: &[Value]) -> Vec<String> {
    let mut v: Vec<String> = diags.iter().map(|d| d.to_string()).collect();
    v.sort();
    v.dedup();
    v
}

pub fn judge(spec: &RunSpec, out: &Outcome) -> Vec<Violation> {
    let mut vs = Vec::new();
    if spec.swarm.pull_diagnostics || spec.swarm.bad_initialize || crate::oracle::stalled(out) {
        return vs;
    }
    for d in 0..spec.docs.len() {
        if !spec.docs[d].in_workspace {
            continue;
        }
        if !crate::oracle::workspace_file_at_end(spec, out, d) {
            // excluded from the workspace by the final configuration: the reload removed it from
            // the analysis, so (if anything was ever published for it) it ends with an empty set
            // ... provided it really is gone: a document the editor opened while the reload was
            // running can still be held by the analysis although the final configuration excludes
            // it (it is neither an "open workspace file" nor "removed from the analysis": no clause
            // of the statement speaks about it)
            let absent = out
                .tree_probe
                .iter()
                .find(|(dd, _)| *dd == d)
                .map(|(_, id)| matches!(crate::oracle::probe_of(out, *id), crate::oracle::Probe::Absent))
                .unwrap_or(false);
            if !absent {
                continue;
            }
            let uri = &out.uris[d];
            if let Some(last) = out.publishes.get(uri).and_then(|ps| ps.iter().filter(|p| p.seq < out.probe_start_seq).last()) {
                if !last.diagnostics.is_empty() {
                    vs.push(Violation {
                        class: "C30:excluded-doc:nonempty-last-publication".into(),
                        detail: format!(
                            "doc {d} ({}) left the workspace (ignoreGlobs) and was removed by the reload; last publication still has {} diagnostics",
                            spec.docs[d].rel,
                            last.diagnostics.len()
                        ),
                    });
                }
            }
            continue;
        }
        let uri = &out.uris[d];
        let last = out
            .publishes
            .get(uri)
            .and_then(|ps| ps.iter().filter(|p| p.seq < out.probe_start_seq).last());
        let got = last.map(|p| canon(&p.diagnostics)).unwrap_or_default();
        match (&out.editor_at_probe[d], &out.disk_at_probe[d]) {
            (Some(_), _) => {
                let Some(want) = &out.reference_diags[d] else { continue };
                if &got != want {
                    // attribute the publication to a text version through the marker in messages
                    let got_markers = crate::script::markers_in(&got.join(" "));
                    let want_markers = crate::script::markers_in(&want.join(" "));
                    let kind = if last.is_none() {
                        "never-published"
                    } else if got.is_empty() {
                        "published-empty"
                    } else if got_markers != want_markers {
                        "stale-version"
                    } else {
                        "different-diagnostics"
                    };
                    vs.push(Violation {
                        class: format!("C30:open-doc:{kind}"),
                        detail: format!(
                            "doc {d} ({}): last publication (t={:?}ms) has {} diagnostics {:?}, fresh diagnosis has {} {:?}",
                            spec.docs[d].rel,
                            last.map(|p| p.t_ms),
                            got.len(),
                            got_markers,
                            want.len(),
                            want_markers
                        ),
                    });
                }
            }
            (None, None) => {
                if !got.is_empty() {
                    vs.push(Violation {
                        class: "C30:removed-doc:nonempty-last-publication".into(),
                        detail: format!(
                            "doc {d} ({}) closed and not on disk; last publication still has {} diagnostics",
                            spec.docs[d].rel,
                            got.len()
                        ),
                    });
                }
            }
            _ => {}
        }
    }
    vs
}
