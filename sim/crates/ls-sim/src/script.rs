//! Run specification: swarm configuration, documents, script of (gap, action) steps, and the
//! seeded generators (one weight profile per property).

use serde::{Deserialize, Serialize};
use simcore::Rng;

use crate::controller::{Policy, SchedSpec};
use crate::proto::REQUEST_METHODS;

#[derive(Serialize, Deserialize, Clone, Debug)]
pub struct Swarm {
    pub pull_diagnostics: bool,
    pub work_done_progress: bool,
    pub config_request: bool,
    /// base latency (ms of simulated time) of client answers to server requests
    pub client_latency_ms: u64,
    /// per server request: chance (per 1000) of an abnormal answer (late / error / duplicate / never-until-settle)
    pub client_fault_permille: u32,
    pub diagnostic_interval: Option<u64>,
    pub enable_reindex: bool,
    pub reindex_duration: u64,
    pub load_stdlib: bool,
    pub emmyrc_initial: bool,
    /// `initialize` carries capabilities of the wrong shape (C24 handshake variant)
    pub bad_initialize: bool,
    /// a request is sent before `initialize` (C24 handshake variant)
    pub request_before_initialize: bool,
}

#[derive(Serialize, Deserialize, Clone, Debug)]
pub struct DocSpec {
    pub rel: String,
    /// initial on-disk content, if the file exists when the server starts
    pub on_disk: Option<String>,
    /// matches the workspace file pattern (`**/*.lua` under the root)
    pub in_workspace: bool,
}

#[derive(Serialize, Deserialize, Clone, Debug, PartialEq)]
pub enum Gap {
    Zero,
    Yield(u32),
    SleepMs(u64),
    AdvanceMs(u64),
    /// send at once, and hold the server's main loop back (long stall) at its `n`-th acquisition
    /// of `analysis.write` from now: the main loop descheduled in the middle of the handler this message
    /// starts (e.g. between a decision taken under a read lock and the write that acts on it)
    StallMainAt { n: u32 },
    /// wait until a background task of the server produces lock-trace event `what`
    /// (`controller::TRIGGERS`), for at most `max_ms` of simulated time, then act at once: the
    /// step lands right after a snapshot / inside a critical section instead of at a blind offset
    /// `hold`: the task that produced the event is held back (long stall) at its next `hold` lock
    /// acquisitions - a worker thread descheduled right after the event
    Until {
        what: usize,
        max_ms: u64,
        #[serde(default)]
        hold: u32,
        /// when the event happened, jump the clock by this much at once: timers expire while the
        /// triggering task is held back inside its critical section
        #[serde(default)]
        advance_ms: u64,
        /// after the event, hold the server's main loop back at its n-th lock acquisition (0 = no)
        #[serde(default)]
        main_stall_at: u32,
    },
}

#[derive(Serialize, Deserialize, Clone, Debug, PartialEq)]
pub enum ParamKind {
    Valid,
    Malformed(u32),
}

#[derive(Serialize, Deserialize, Clone, Debug, PartialEq)]
pub enum Action {
    Open { doc: usize, text: String },
    Change { doc: usize, text: String },
    Save { doc: usize },
    Close { doc: usize },
    Request { id: i32, method: String, doc: usize, line: u32, ch: u32, params: ParamKind },
    Cancel { id: i32 },
    ChangeConfig { version: u32 },
    DiskWrite { doc: usize, text: String },
    DiskDelete { doc: usize },
    /// deliver up to `n` pending watcher events (oldest first); `dup`: send the batch twice;
    /// `reverse`: deliver the batch in reverse order
    Watch { n: usize, dup: bool, reverse: bool },
    EmmyrcWrite {
        diagnostic_interval: Option<u64>,
        enable_reindex: bool,
        reindex_duration: u64,
        /// `workspace.ignoreGlobs = ["**/deep/**"]`: documents under a `deep/` directory leave
        /// (or, when false again, re-enter) the workspace at the reload this write triggers
        #[serde(default)]
        ignore_deep: bool,
    },
    /// a response for a request id the server never issued
    StrayResponse { id: i32 },
    /// editor-initiated rename of the file of `from` to the (free) path of `to`: the file is moved
    /// on disk, `workspace/didRenameFiles` is sent, the watcher events follow later.
    /// `require_closed`: skip unless both documents are closed in the editor (content-judging
    /// properties only rename files the editor does not hold).
    RenameFile { from: usize, to: usize, require_closed: bool },
    /// `$/setTrace` (kind 0) or a notification the server does not know (kind 1..)
    MiscNotification { kind: u32 },
}

#[derive(Serialize, Deserialize, Clone, Debug, PartialEq)]
pub struct Step {
    pub gap: Gap,
    pub action: Action,
}

#[derive(Serialize, Deserialize, Clone, Debug)]
pub struct RunSpec {
    pub prop: String,
    pub seed: u64,
    pub swarm: Swarm,
    pub docs: Vec<DocSpec>,
    pub script: Vec<Step>,
    pub sched: SchedSpec,
    /// explicit scheduler decisions (replay); None = draw from the seeded stream
    pub decisions: Option<Vec<u32>>,
    /// alternative scheduler stream for the same run (used by the minimiser)
    #[serde(default)]
    pub sched_salt: u64,
}

/// Text of version `n` of document `doc`. Every text carries the unique marker `v_<doc>_<n>` as
/// the name of an unused local, so any observation of content (syntax tree, `unused` diagnostic
/// message) is attributable to exactly one write. Flavours add a syntax error or an undefined
/// global; nothing a text contains is visible from another file.
pub fn doc_text(doc: usize, n: u32, flavour: u32) -> String {
    let mut s = format!("local v_{doc}_{n} = {n}\n");
    match flavour % 8 {
        1 => s.push_str(&format!("local u_{doc}_{n} = undefined_g_{doc}_{n}\nreturn u_{doc}_{n}\n")),
        2 => s.push_str("local function = \n"),
        3 => s.push_str(&format!("---@type string\nlocal t_{doc}_{n} = 1\nreturn t_{doc}_{n}\n")),
        4 => s.push_str("return {}\n"),
        // flavours >= 5 make documents depend on each other (`require`); only profiles that do
        // not judge content or diagnostics draw them
        5 | 6 | 7 => s.push_str(&format!("local m_{doc}_{n} = require(\"d{}\")\nreturn m_{doc}_{n}\n", (doc + (flavour as usize - 4)) % 4)),
        _ => {}
    }
    s
}

/// Extract the `(doc, n)` markers present in a text / tree dump / message.
pub fn markers_in(s: &str) -> Vec<(usize, u32)> {
    let b = s.as_bytes();
    let mut out = Vec::new();
    let mut i = 0;
    while i + 2 < b.len() {
        if b[i] == b'v' && b[i + 1] == b'_' && (i == 0 || !(b[i - 1].is_ascii_alphanumeric() || b[i - 1] == b'_')) {
            let mut j = i + 2;
            let st = j;
            while j < b.len() && b[j].is_ascii_digit() {
                j += 1;
            }
            if j > st && j < b.len() && b[j] == b'_' {
                let d: usize = s[st..j].parse().unwrap_or(usize::MAX);
                let mut k = j + 1;
                let st2 = k;
                while k < b.len() && b[k].is_ascii_digit() {
                    k += 1;
                }
                if k > st2 {
                    if let Ok(n) = s[st2..k].parse::<u32>() {
                        if !out.contains(&(d, n)) {
                            out.push((d, n));
                        }
                    }
                    i = k;
                    continue;
                }
            }
        }
        i += 1;
    }
    out
}

/// Generator weights for one property.
pub struct Profile {
    pub min_steps: usize,
    pub max_steps: usize,
    pub max_docs: usize,
    // action weights
    pub w_open: u32,
    pub w_change: u32,
    pub w_save: u32,
    pub w_close: u32,
    pub w_request: u32,
    pub w_cancel: u32,
    pub w_change_config: u32,
    pub w_disk_write: u32,
    pub w_disk_delete: u32,
    pub w_watch: u32,
    pub w_emmyrc: u32,
    pub w_stray: u32,
    pub w_rename: u32,
    pub w_misc_notif: u32,
    /// number of text flavours drawn (5: self-contained texts only; 8: also `require` of other documents)
    pub flavours: u64,
    /// renames only of files the editor does not hold
    pub rename_closed_only: bool,
    // gap weights: zero, yield, short sleep (1..20ms), around-debounce, seconds, advance
    pub g: [u32; 6],
    pub malformed_permille: u32,
    pub unknown_method_permille: u32,
    pub request_methods: &'static [&'static str],
    pub allow_out_of_workspace: bool,
    pub allow_pull: bool,
    pub force_push: bool,
    pub allow_reindex: bool,
    pub handshake_variants: bool,
    pub client_faults: bool,
    /// after a reload trigger, emit a burst of open/change/close around the reload window
    pub reload_bursts: bool,
    /// after an open / change, sometimes emit another change (or the close) of the same document
    /// exactly when its debounced diagnostic task fires (interval -1 / 0 / +1 ms later)
    pub timer_races: bool,
    /// .emmyrc.json rewrites may exclude / re-include the `deep/` documents
    pub membership_flips: bool,
    /// chance (per 1000) that a step waits for a lock-trace event of a background task instead of
    /// a blind gap (`Gap::Until`); the burst / timer-race generators use it more often
    pub trace_triggers: u32,
}

const LOCKY_METHODS: &[&str] = &[
    "textDocument/hover",
    "textDocument/semanticTokens/full",
    "textDocument/completion",
    "textDocument/diagnostic",
    "workspace/diagnostic",
    "textDocument/documentSymbol",
    "textDocument/codeAction",
    "textDocument/inlayHint",
    "textDocument/references",
    "workspace/symbol",
    "textDocument/documentLink",
    "textDocument/codeLens",
    "emmy/annotator",
];

pub fn profile(prop: &str) -> Profile {
    let base = Profile {
        min_steps: 4,
        max_steps: 24,
        max_docs: 3,
        w_open: 10,
        w_change: 14,
        w_save: 0,
        w_close: 8,
        w_request: 0,
        w_cancel: 0,
        w_change_config: 0,
        w_disk_write: 0,
        w_disk_delete: 0,
        w_watch: 0,
        w_emmyrc: 0,
        w_stray: 0,
        w_rename: 0,
        w_misc_notif: 0,
        flavours: 5,
        rename_closed_only: true,
        g: [50, 25, 10, 5, 5, 5],
        malformed_permille: 0,
        unknown_method_permille: 0,
        request_methods: LOCKY_METHODS,
        allow_out_of_workspace: true,
        allow_pull: true,
        force_push: false,
        allow_reindex: false,
        handshake_variants: false,
        client_faults: false,
        reload_bursts: false,
        timer_races: false,
        membership_flips: false,
        trace_triggers: 40,
    };
    match prop {
        "C27" => base,
        "C24" => Profile {
            max_steps: 40,
            w_open: 6,
            w_change: 6,
            w_close: 3,
            w_request: 40,
            w_cancel: 12,
            w_change_config: 2,
            w_stray: 3,
            w_rename: 3,
            w_misc_notif: 2,
            w_disk_write: 2,
            w_watch: 3,
            flavours: 8,
            rename_closed_only: false,
            g: [45, 25, 15, 5, 5, 5],
            malformed_permille: 220,
            unknown_method_permille: 60,
            request_methods: REQUEST_METHODS,
            handshake_variants: true,
            client_faults: true,
            ..base
        },
        "C28" => Profile {
            max_steps: 40,
            w_open: 8,
            w_change: 8,
            w_save: 4,
            w_close: 5,
            w_request: 24,
            w_cancel: 3,
            w_change_config: 4,
            w_disk_write: 5,
            w_disk_delete: 2,
            w_watch: 12,
            w_emmyrc: 4,
            w_rename: 4,
            w_misc_notif: 1,
            flavours: 8,
            rename_closed_only: false,
            g: [60, 25, 8, 2, 3, 2],
            allow_reindex: true,
            client_faults: true,
            membership_flips: true,
            ..base
        },
        "C29" => Profile {
            max_steps: 30,
            w_open: 10,
            w_change: 12,
            w_save: 6,
            w_close: 7,
            w_request: 2,
            w_change_config: 6,
            w_disk_write: 7,
            w_disk_delete: 4,
            w_watch: 10,
            w_emmyrc: 5,
            w_rename: 3,
            g: [35, 20, 10, 10, 20, 5],
            allow_reindex: true,
            reload_bursts: true,
            membership_flips: true,
            ..base
        },
        "C30" => Profile {
            max_steps: 30,
            w_open: 10,
            w_change: 16,
            w_save: 4,
            w_close: 6,
            w_request: 1,
            w_change_config: 3,
            w_disk_write: 5,
            w_disk_delete: 4,
            w_watch: 8,
            w_emmyrc: 3,
            w_rename: 2,
            g: [25, 15, 10, 25, 15, 10],
            allow_pull: false,
            force_push: true,
            allow_reindex: true,
            reload_bursts: true,
            timer_races: true,
            membership_flips: true,
            ..base
        },
        _ => base,
    }
}

fn gen_gap(r: &mut Rng, p: &Profile, interval: u64) -> Gap {
    if p.trace_triggers > 0 && r.below(1000) < p.trace_triggers as u64 {
        return Gap::Until { what: r.usize_below(crate::controller::TRIGGERS.len()), max_ms: *r.pick(&[20, 600, 2500]), hold: *r.pick(&[0, 0, 1, 2, 3]), advance_ms: *r.pick(&[0, 0, 0, 500, 2000]), main_stall_at: *r.pick(&[0, 0, 0, 1, 2]) };
    }
    if p.trace_triggers > 0 && r.below(1000) < (p.trace_triggers / 2) as u64 {
        return Gap::StallMainAt { n: r.range(1, 3) as u32 };
    }
    match r.weighted(&p.g) {
        0 => Gap::Zero,
        1 => Gap::Yield(r.range(1, 6) as u32),
        2 => Gap::SleepMs(r.range(1, 20)),
        3 => {
            // around a debounce threshold: diagnostic interval, 1000 (reindex), 2000 (config reload)
            let base = *r.pick(&[interval.max(1), 1000, 2000, 500]);
            let d = r.range(0, 2);
            Gap::SleepMs((base + d).saturating_sub(1).max(1))
        }
        4 => Gap::SleepMs(r.range(1, 6) * 1000),
        _ => Gap::AdvanceMs(*r.pick(&[1, 50, 499, 500, 501, 1000, 2000, 5000, 31000])),
    }
}

/// Generate the run specification of run `seed` for property `prop`.
pub fn generate(prop: &str, seed: u64) -> RunSpec {
    let p = profile(prop);
    let mut sw = Rng::stream(seed, "swarm");
    let mut r = Rng::stream(seed, "workload");

    let pull = if p.force_push { false } else { p.allow_pull && sw.chance(1, 2) };
    let mut swarm = Swarm {
        pull_diagnostics: pull,
        work_done_progress: sw.chance(1, 2),
        config_request: sw.chance(2, 3),
        client_latency_ms: *sw.pick(&[0, 0, 0, 1, 50, 1000]),
        client_fault_permille: if p.client_faults { *sw.pick(&[0, 50, 200, 500]) } else { 0 },
        diagnostic_interval: *sw.pick(&[None, Some(0), Some(1), Some(100), Some(500), Some(1000)]),
        enable_reindex: p.allow_reindex && sw.chance(1, 3),
        reindex_duration: *sw.pick(&[0, 1000, 1500, 5000]),
        load_stdlib: false,
        emmyrc_initial: sw.chance(1, 2),
        bad_initialize: false,
        request_before_initialize: false,
    };
    if p.handshake_variants {
        swarm.bad_initialize = sw.chance(1, 25);
        swarm.request_before_initialize = sw.chance(1, 10);
    }
    if p.w_change_config > 0 && !swarm.config_request && sw.chance(1, 2) {
        swarm.config_request = true;
    }
    if p.reload_bursts {
        // a reload only has a window when something inside it waits for the client
        swarm.work_done_progress = sw.chance(3, 4);
        swarm.client_latency_ms = *sw.pick(&[0, 1, 50, 50, 1000, 1000, 3000]);
    }

    let sched = SchedSpec {
        policy: *sw.pick(&[Policy::Random, Policy::Random, Policy::MostlyFifo, Policy::Priority, Policy::Fifo]),
        yield_permille: *sw.pick(&[0, 100, 300, 600]),
        max_yields: *sw.pick(&[1, 2, 3]),
        change_points: *sw.pick(&[0, 1, 2, 4]),
        event_interval: *sw.pick(&[61, 61, 1, 7, 1000]),
        stall_permille: 0,
        stall_len: *sw.pick(&[16, 40]),
        stall_target: String::new(),
        stall_who: 0,
    };
    // half of the runs have one slow resource: acquisitions of one lock type stall often and long;
    // a quarter stall rarely at any acquisition
    let mut sched = sched;
    match sw.below(4) {
        0 | 1 => {
            sched.stall_target = (*sw.pick(&["CancellationToken", "EmmyLuaAnalysis", "WorkspaceManager", "()", "RequestId", "Option<"])).to_string();
            sched.stall_permille = *sw.pick(&[100, 300, 600]);
            sched.stall_who = *sw.pick(&[0, 1, 1, 2]);
        }
        2 => sched.stall_permille = *sw.pick(&[5, 20]),
        _ => {}
    }

    let ndocs = r.range(1, p.max_docs as u64) as usize;
    let mut docs = Vec::new();
    for d in 0..ndocs {
        let in_ws = !(p.allow_out_of_workspace && r.chance(1, 8));
        let rel = if in_ws {
            match r.below(3) {
                0 => format!("d{d}.lua"),
                1 => format!("sub/d{d}.lua"),
                _ => format!("sub/deep/d{d}.lua"),
            }
        } else {
            format!("notes/d{d}.txt")
        };
        let on_disk = if r.chance(3, 5) { Some(doc_text(d, 0, r.below(p.flavours) as u32)) } else { None };
        docs.push(DocSpec { rel, on_disk, in_workspace: in_ws });
    }

    // model used only to emit legal client sequences
    let mut open = vec![false; ndocs];
    let mut ver = vec![0u32; ndocs];
    let mut disk: Vec<bool> = docs.iter().map(|d| d.on_disk.is_some()).collect();
    let mut next_id = 100i32;
    let mut sent_ids: Vec<i32> = Vec::new();
    let mut pending_watch = 0usize;
    let mut cfg_version = 0u32;
    // the interval the server really uses: the default (500) unless an .emmyrc.json says otherwise
    let mut interval = if swarm.emmyrc_initial { swarm.diagnostic_interval.unwrap_or(500) } else { 500 };

    let nsteps = r.range(p.min_steps as u64, p.max_steps as u64) as usize;
    let mut script = Vec::new();
    let weights = [
        p.w_open, p.w_change, p.w_save, p.w_close, p.w_request, p.w_cancel, p.w_change_config,
        p.w_disk_write, p.w_disk_delete, p.w_watch, p.w_emmyrc, p.w_stray, p.w_rename, p.w_misc_notif,
    ];
    // A third of the reload-oriented scripts start with the rarest combination spelled out: one
    // document open (often one that does not exist on disk), a reload trigger, and the close of
    // that document aimed at the reload window.
    if p.reload_bursts && r.chance(1, 3) {
        // the document: often one that does not exist on disk (its close removes it), otherwise
        // often one that does (its close must leave the file the reload loads alone)
        let want_on_disk = r.chance(1, 3);
        let d = (0..ndocs)
            .find(|i| docs[*i].in_workspace && disk[*i] == want_on_disk && r.chance(2, 3))
            .unwrap_or_else(|| r.usize_below(ndocs));
        if docs[d].in_workspace {
            ver[d] += 1;
            script.push(Step { gap: gen_gap(&mut r, &p, interval), action: Action::Open { doc: d, text: doc_text(d, ver[d], r.below(p.flavours) as u32) } });
            let emmyrc = r.chance(1, 2);
            if emmyrc {
                script.push(Step {
                    gap: Gap::SleepMs(r.range(1, 3000)),
                    action: Action::EmmyrcWrite { diagnostic_interval: Some(100), enable_reindex: false, reindex_duration: 1000, ignore_deep: false },
                });
                script.push(Step { gap: Gap::Zero, action: Action::Watch { n: 3, dup: false, reverse: false } });
            } else {
                cfg_version += 1;
                script.push(Step { gap: Gap::SleepMs(r.range(1, 3000)), action: Action::ChangeConfig { version: cfg_version } });
            }
            let base = if emmyrc { 2000u64 } else { 0 };
            if r.chance(1, 4) || (disk[d] && r.chance(1, 2)) {
                // an edit right after the reload cleared its workspaces (the reload is held back
                // before it loads them again), then the close, whose handler is descheduled
                // between its look at the analysis and the write that acts on it
                ver[d] += 1;
                script.push(Step {
                    gap: Gap::Until { what: 1, max_ms: base + 3000, hold: *r.pick(&[1, 2]), advance_ms: 0, main_stall_at: 0 },
                    action: Action::Change { doc: d, text: doc_text(d, ver[d], r.below(p.flavours) as u32) },
                });
                script.push(Step { gap: Gap::StallMainAt { n: *r.pick(&[1, 2, 2, 2]) }, action: Action::Close { doc: d } });
            } else {
            if r.chance(1, 2) {
                ver[d] += 1;
                script.push(Step { gap: Gap::Yield(r.range(1, 4) as u32), action: Action::Change { doc: d, text: doc_text(d, ver[d], r.below(p.flavours) as u32) } });
            }
            let gap = match r.below(9) {
                7 | 8 => Gap::Until { what: *r.pick(&[0, 0, 1, 2, 3, 10]), max_ms: base + 3000, hold: *r.pick(&[0, 1, 2, 3]), advance_ms: 0, main_stall_at: *r.pick(&[0, 0, 0, 1, 1, 2]) },
                0 => Gap::SleepMs(base + 1),
                1 => Gap::SleepMs(base + r.range(2, 40)),
                2 => Gap::SleepMs(base + r.range(40, 300)),
                3 => Gap::SleepMs(base + r.range(300, 1200)),
                4 => Gap::SleepMs(base + r.range(1200, 3500)),
                5 if base == 0 => Gap::Yield(r.range(1, 12) as u32),
                _ => Gap::SleepMs(base.max(1)),
            };
            script.push(Step { gap, action: Action::Close { doc: d } });
            }
        }
    }
    // documents that are left alone for the rest of the script (so that the state a timer race
    // left behind is what the final oracle sees)
    let mut frozen = vec![false; ndocs];
    let mut guard = 0;
    while script.len() < nsteps && guard < nsteps * 20 {
        guard += 1;
        let kind = r.weighted(&weights);
        let d = r.usize_below(ndocs);
        if frozen[d] && matches!(kind, 0 | 1 | 2 | 3 | 7 | 8 | 12) {
            continue;
        }
        let action = match kind {
            0 => {
                if open[d] {
                    continue;
                }
                open[d] = true;
                ver[d] += 1;
                // sometimes the editor opens the file with exactly the disk content
                Action::Open { doc: d, text: doc_text(d, ver[d], r.below(p.flavours) as u32) }
            }
            1 => {
                if !open[d] {
                    continue;
                }
                ver[d] += 1;
                Action::Change { doc: d, text: doc_text(d, ver[d], r.below(p.flavours) as u32) }
            }
            2 => {
                if !open[d] || !docs[d].in_workspace {
                    continue;
                }
                disk[d] = true;
                pending_watch += 1;
                Action::Save { doc: d }
            }
            3 => {
                if !open[d] {
                    continue;
                }
                open[d] = false;
                Action::Close { doc: d }
            }
            4 => {
                let id = next_id;
                next_id += 1;
                sent_ids.push(id);
                let method = if r.below(1000) < p.unknown_method_permille as u64 {
                    (*r.pick(&["textDocument/unknownThing", "emmy/nope", "$/unknownRequest", "workspace/willRenameFiles"])).to_string()
                } else {
                    (*r.pick(p.request_methods)).to_string()
                };
                let params = if r.below(1000) < p.malformed_permille as u64 {
                    ParamKind::Malformed(r.below(6) as u32)
                } else {
                    ParamKind::Valid
                };
                // positions: inside the text, at line ends, and far out of range
                let line = *r.pick(&[0, 0, 0, 1, 2, 3, 7, 1000]);
                let ch = *r.pick(&[0, 3, 6, 8, 12, 40, 100000]);
                Action::Request { id, method, doc: d, line, ch, params }
            }
            5 => {
                let id = match r.below(10) {
                    0 => 9_000 + r.below(10) as i32, // never sent
                    _ if !sent_ids.is_empty() => *r.pick(&sent_ids),
                    _ => continue,
                };
                Action::Cancel { id }
            }
            6 => {
                cfg_version += 1;
                Action::ChangeConfig { version: cfg_version }
            }
            7 => {
                if !docs[d].in_workspace {
                    continue;
                }
                ver[d] += 1;
                disk[d] = true;
                pending_watch += 1;
                Action::DiskWrite { doc: d, text: doc_text(d, ver[d], r.below(p.flavours) as u32) }
            }
            8 => {
                if !disk[d] || !docs[d].in_workspace {
                    continue;
                }
                disk[d] = false;
                pending_watch += 1;
                Action::DiskDelete { doc: d }
            }
            9 => {
                if pending_watch == 0 && !r.chance(1, 10) {
                    continue;
                }
                let n = r.range(1, 3) as usize;
                pending_watch = pending_watch.saturating_sub(n);
                Action::Watch { n, dup: r.chance(1, 6), reverse: r.chance(1, 6) }
            }
            10 => {
                pending_watch += 1;
                Action::EmmyrcWrite {
                    diagnostic_interval: *r.pick(&[None, Some(0), Some(100), Some(500), Some(1500)]),
                    enable_reindex: p.allow_reindex && r.chance(1, 2),
                    reindex_duration: *r.pick(&[0, 1000, 2000]),
                    ignore_deep: p.membership_flips && r.chance(1, 3),
                }
            }
            11 => Action::StrayResponse { id: 70_000 + r.below(5) as i32 },
            12 => {
                // move the file of `d` to the path of a document that has no file
                if !disk[d] || !docs[d].in_workspace {
                    continue;
                }
                let Some(to) = (0..ndocs).find(|t| *t != d && !disk[*t] && docs[*t].in_workspace && (!p.rename_closed_only || !open[*t])) else { continue };
                if p.rename_closed_only && open[d] {
                    continue;
                }
                disk[d] = false;
                disk[to] = true;
                pending_watch += 2;
                Action::RenameFile { from: d, to, require_closed: p.rename_closed_only }
            }
            _ => Action::MiscNotification { kind: r.below(4) as u32 },
        };
        let edited_doc = match &action {
            Action::Open { doc, .. } | Action::Change { doc, .. } => Some(*doc),
            _ => None,
        };
        if let Action::EmmyrcWrite { diagnostic_interval, .. } = &action {
            interval = diagnostic_interval.unwrap_or(500);
        }
        let requested_id = match &action {
            Action::Request { id, .. } => Some(*id),
            _ => None,
        };
        let renamed_to = match &action {
            Action::RenameFile { to, .. } => Some(*to),
            _ => None,
        };
        let is_trigger = matches!(action, Action::ChangeConfig { .. } | Action::EmmyrcWrite { .. });
        let is_emmyrc = matches!(action, Action::EmmyrcWrite { .. });
        let gap = gen_gap(&mut r, &p, interval);
        script.push(Step { gap, action });
        // A cancellation aimed at the handler of the request just sent: the moment it waits for,
        // acquires or releases the analysis read lock (cancellation racing with completion).
        if let (Some(id), true) = (requested_id, p.w_cancel > 0) {
            if r.chance(1, 6) {
                script.push(Step {
                    gap: Gap::Until { what: *r.pick(&[9, 11, 12, 12]), max_ms: *r.pick(&[50, 700]), hold: *r.pick(&[0, 1, 2]), advance_ms: 0, main_stall_at: 0 },
                    action: Action::Cancel { id },
                });
            }
        }
        // The editor opens the renamed file right away (the rename handler is a spawned task that
        // still has to read the new path from disk).
        if let Some(to) = renamed_to {
            if !open[to] && r.chance(1, 2) {
                open[to] = true;
                ver[to] += 1;
                let gap = if r.chance(1, 2) { Gap::Zero } else { Gap::Yield(r.range(1, 6) as u32) };
                script.push(Step { gap, action: Action::Open { doc: to, text: doc_text(to, ver[to], r.below(p.flavours) as u32) } });
            }
        }
        // The per-file diagnostic task of an edit fires `interval` ms after it: the next edit (or
        // the close) of the same document lands exactly there, while that task is between its
        // diagnosis, its publication and the removal of its token.
        if let (true, Some(d)) = (p.timer_races, edited_doc) {
            if open[d] && r.chance(1, 4) {
                let at = (interval.max(1) + r.below(3)).saturating_sub(1).max(1);
                let action = if r.chance(1, 5) {
                    open[d] = false;
                    Action::Close { doc: d }
                } else {
                    ver[d] += 1;
                    Action::Change { doc: d, text: doc_text(d, ver[d], r.below(p.flavours) as u32) }
                };
                // a third of the races wait for the debounced task itself (it fires, takes the token
                // table, waits for / releases the analysis read lock) instead of the wall-clock offset
                let gap = if r.chance(1, 3) { Gap::Until { what: *r.pick(&[8, 9, 11]), max_ms: interval + 50, hold: *r.pick(&[0, 1, 2]), advance_ms: 0, main_stall_at: 0 } } else { Gap::SleepMs(at) };
                script.push(Step { gap, action });
                if r.chance(1, 2) {
                    frozen[d] = true;
                }
            }
        }
        // The debounce timer of the document just edited expires while another handler is held
        // back inside its critical section (it holds the analysis write lock and is about to take
        // the next lock): an external write to another file is reported by the watcher, and the
        // moment that handler has the write lock the clock jumps past the interval.
        if let (true, Some(d)) = (p.timer_races, edited_doc) {
            if open[d] && ndocs >= 2 && r.chance(1, 6) {
                let other = (d + 1 + r.usize_below(ndocs - 1)) % ndocs;
                if docs[other].in_workspace {
                    ver[other] += 1;
                    disk[other] = true;
                    script.push(Step { gap: Gap::Zero, action: Action::DiskWrite { doc: other, text: doc_text(other, ver[other], r.below(p.flavours) as u32) } });
                    script.push(Step { gap: Gap::SleepMs(r.range(1, interval.max(2) / 2 + 1)), action: Action::Watch { n: 4, dup: false, reverse: false } });
                    // ... and what the client sends in that moment: nothing of interest, the close
                    // of the edited document, or its next edit (the expired task is queued on the
                    // analysis lock behind the held-back writer, the main loop queues behind it)
                    let action = match r.below(3) {
                        0 => Action::MiscNotification { kind: 1 },
                        1 => {
                            open[d] = false;
                            Action::Close { doc: d }
                        }
                        _ => {
                            ver[d] += 1;
                            Action::Change { doc: d, text: doc_text(d, ver[d], r.below(p.flavours) as u32) }
                        }
                    };
                    script.push(Step { gap: Gap::Until { what: 6, max_ms: 300, hold: *r.pick(&[1, 2, 3]), advance_ms: interval + r.below(3), main_stall_at: 0 }, action });
                    if r.chance(1, 2) {
                        frozen[d] = true;
                    }
                }
            }
        }
        // Faults placed inside operations that create in-flight state: right after a reload
        // trigger, a short burst of open / change / close lands in (or just around) the reload
        // window. An .emmyrc.json rewrite only reloads 2 s after its watcher event.
        if p.reload_bursts && is_trigger && r.chance(2, 3) {
            if is_emmyrc {
                pending_watch = pending_watch.saturating_sub(3);
                script.push(Step { gap: Gap::Zero, action: Action::Watch { n: 3, dup: false, reverse: false } });
            }
            let base = if is_emmyrc { 2000u64 } else { 0 };
            let mut first = true;
            for _ in 0..r.range(1, 3) {
                let mut d = r.usize_below(ndocs);
                // closing the last open document inside the window is the rarest combination
                let open_docs: Vec<usize> = (0..ndocs).filter(|i| open[*i]).collect();
                let close_last = open_docs.len() == 1 && r.chance(2, 3);
                if close_last {
                    d = open_docs[0];
                }
                let action = if open[d] {
                    if close_last || r.chance(1, 2) {
                        open[d] = false;
                        Action::Close { doc: d }
                    } else {
                        ver[d] += 1;
                        Action::Change { doc: d, text: doc_text(d, ver[d], r.below(p.flavours) as u32) }
                    }
                } else {
                    open[d] = true;
                    ver[d] += 1;
                    Action::Open { doc: d, text: doc_text(d, ver[d], r.below(p.flavours) as u32) }
                };
                let gap = if first {
                    first = false;
                    match r.below(9) {
                        6 | 7 | 8 => Gap::Until { what: *r.pick(&[0, 0, 1, 2, 3, 10]), max_ms: base + 3000, hold: *r.pick(&[0, 1, 2, 3]), advance_ms: 0, main_stall_at: *r.pick(&[0, 0, 0, 1, 1, 2]) },
                        0 => Gap::SleepMs(base.saturating_sub(1).max(1)),
                        1 => Gap::SleepMs(base + 1),
                        2 => Gap::SleepMs(base + r.range(1, 60)),
                        3 => Gap::SleepMs(base + r.range(100, 1100)),
                        4 => Gap::SleepMs(base + r.range(1100, 5200)),
                        _ => if base == 0 { Gap::Yield(r.range(1, 8) as u32) } else { Gap::SleepMs(base) },
                    }
                } else {
                    match r.below(5) {
                        0 => Gap::Zero,
                        1 => Gap::Yield(r.range(1, 6) as u32),
                        2 => Gap::SleepMs(r.range(1, 60)),
                        3 => Gap::Until { what: *r.pick(&[0, 1, 2, 3, 10]), max_ms: 1500, hold: *r.pick(&[0, 1, 2]), advance_ms: 0, main_stall_at: *r.pick(&[0, 0, 1, 2]) },
                        _ => Gap::SleepMs(r.range(100, 1500)),
                    }
                };
                script.push(Step { gap, action });
            }
        }
    }

    if prop == "C29"
        && !script.iter().any(|s| {
            matches!(s.action, Action::ChangeConfig { .. } | Action::EmmyrcWrite { .. } | Action::Save { .. })
        })
    {
        // C29 scripts contain at least one reload trigger, at a random position
        let at = r.usize_below(script.len() + 1);
        let action = if r.chance(1, 2) {
            Action::ChangeConfig { version: cfg_version + 1 }
        } else {
            Action::EmmyrcWrite { diagnostic_interval: Some(100), enable_reindex: p.allow_reindex && r.chance(1, 2), reindex_duration: 1000, ignore_deep: false }
        };
        let gap = gen_gap(&mut r, &p, interval);
        script.insert(at, Step { gap, action });
    }
    RunSpec { prop: prop.to_string(), seed, swarm, docs, script, sched, decisions: None, sched_salt: 0 }
}
