//! JSON-RPC message builders for the simulated client.

use serde_json::{Value, json};

pub fn uri_of(path: &std::path::Path) -> String {
    emmylua_code_analysis::file_path_to_uri(&path.to_path_buf())
        .map(|u| u.to_string())
        .unwrap_or_else(|| format!("file://{}", path.display()))
}

/// The 38 request methods registered in `handlers/request_handler.rs`.
pub const REQUEST_METHODS: &[&str] = &[
    "textDocument/hover",
    "textDocument/documentSymbol",
    "textDocument/foldingRange",
    "textDocument/documentColor",
    "textDocument/colorPresentation",
    "textDocument/documentLink",
    "documentLink/resolve",
    "emmy/annotator",
    "emmy/gutter",
    "emmy/gutter/detail",
    "emmy/syntaxTree",
    "textDocument/selectionRange",
    "textDocument/completion",
    "completionItem/resolve",
    "textDocument/inlayHint",
    "inlayHint/resolve",
    "textDocument/definition",
    "textDocument/implementation",
    "textDocument/references",
    "textDocument/rename",
    "textDocument/prepareRename",
    "textDocument/codeLens",
    "codeLens/resolve",
    "textDocument/signatureHelp",
    "textDocument/documentHighlight",
    "textDocument/semanticTokens/full",
    "workspace/executeCommand",
    "textDocument/codeAction",
    "textDocument/inlineValue",
    "workspace/symbol",
    "textDocument/formatting",
    "textDocument/rangeFormatting",
    "textDocument/onTypeFormatting",
    "textDocument/prepareCallHierarchy",
    "callHierarchy/incomingCalls",
    "callHierarchy/outgoingCalls",
    "textDocument/diagnostic",
    "workspace/diagnostic",
];

fn range(line: u32, ch: u32) -> Value {
    json!({"start": {"line": 0, "character": 0}, "end": {"line": line, "character": ch}})
}

/// Well-formed params for `method` aimed at `uri` / position.
pub fn valid_params(method: &str, uri: &str, line: u32, ch: u32) -> Value {
    let td = json!({"uri": uri});
    let pos = json!({"line": line, "character": ch});
    match method {
        "textDocument/hover"
        | "textDocument/definition"
        | "textDocument/implementation"
        | "textDocument/documentHighlight"
        | "textDocument/signatureHelp"
        | "textDocument/prepareRename"
        | "textDocument/prepareCallHierarchy"
        | "textDocument/completion" => json!({"textDocument": td, "position": pos}),
        "textDocument/references" => {
            json!({"textDocument": td, "position": pos, "context": {"includeDeclaration": true}})
        }
        "textDocument/rename" => json!({"textDocument": td, "position": pos, "newName": "renamed_x"}),
        "textDocument/documentSymbol"
        | "textDocument/foldingRange"
        | "textDocument/documentColor"
        | "textDocument/documentLink"
        | "textDocument/codeLens"
        | "textDocument/semanticTokens/full"
        | "textDocument/diagnostic" => json!({"textDocument": td}),
        "textDocument/formatting" => {
            json!({"textDocument": td, "options": {"tabSize": 4, "insertSpaces": true}})
        }
        "textDocument/rangeFormatting" => {
            json!({"textDocument": td, "range": range(line, ch), "options": {"tabSize": 4, "insertSpaces": true}})
        }
        "textDocument/onTypeFormatting" => {
            json!({"textDocument": td, "position": pos, "ch": "\n", "options": {"tabSize": 4, "insertSpaces": true}})
        }
        "textDocument/colorPresentation" => {
            json!({"textDocument": td, "color": {"red": 1.0, "green": 0.5, "blue": 0.0, "alpha": 1.0}, "range": range(line, ch)})
        }
        "documentLink/resolve" => json!({"range": range(line, ch), "target": uri}),
        "codeLens/resolve" => json!({"range": range(line, ch), "data": null}),
        "textDocument/inlayHint" => json!({"textDocument": td, "range": range(line + 5, 0)}),
        "inlayHint/resolve" => json!({"position": pos, "label": "x"}),
        "textDocument/selectionRange" => json!({"textDocument": td, "positions": [pos]}),
        "completionItem/resolve" => json!({"label": "v", "kind": 6}),
        "textDocument/codeAction" => {
            json!({"textDocument": td, "range": range(line, ch), "context": {"diagnostics": []}})
        }
        "textDocument/inlineValue" => {
            json!({"textDocument": td, "range": range(line + 5, 0), "context": {"frameId": 0, "stoppedLocation": range(line, ch)}})
        }
        "workspace/symbol" => json!({"query": "v_"}),
        "workspace/executeCommand" => json!({"command": "emmy.unknown.command", "arguments": []}),
        "callHierarchy/incomingCalls" | "callHierarchy/outgoingCalls" => json!({"item": {
            "name": "f", "kind": 12, "uri": uri, "range": range(line, ch), "selectionRange": range(line, ch)
        }}),
        "workspace/diagnostic" => json!({"previousResultIds": []}),
        "emmy/annotator" | "emmy/gutter" | "emmy/syntaxTree" => json!({"uri": uri}),
        "emmy/gutter/detail" => json!({"data": "x"}),
        _ => json!({}),
    }
}

/// Ill-formed params (variant selects the kind of damage).
pub fn malformed_params(variant: u32, uri: &str) -> Option<Value> {
    match variant % 6 {
        0 => None,                                   // params absent
        1 => Some(Value::Null),                      // explicit null
        2 => Some(json!(42)),                        // wrong JSON type
        3 => Some(json!({"textDocument": 7})),       // wrong field type
        4 => Some(json!({"position": {"line": -1}})), // missing required + bad value
        _ => Some(json!([{"uri": uri}])),            // array instead of object
    }
}

/// JSON-RPC ids may be numbers or strings, and `7` and `"7"` are different ids. Script requests
/// go out under three representations: the number itself, the string `"s<number>"` (unrelated to
/// any number), or - the *twin* case - the decimal text of the previous request's number, so that
/// a numeric id and a string id with the same digits are in flight together. Probes and the
/// handshake use numbers.
pub fn string_id(id: i32) -> bool {
    !matches!(wire_id(id), Value::Number(_))
}

pub fn wire_id(id: i32) -> Value {
    if !(100..40_000).contains(&id) {
        return Value::from(id);
    }
    match id % 6 {
        0 => Value::from(format!("s{id}")),
        3 => Value::from(format!("{}", id - 1)),
        _ => Value::from(id),
    }
}

/// The script's request number behind an id as the server echoes it (`Display` of a
/// `lsp_server::RequestId`: strings are quoted).
pub fn internal_id(shown: &str) -> Option<i32> {
    if let Some(inner) = shown.strip_prefix('"').and_then(|x| x.strip_suffix('"')) {
        if let Some(rest) = inner.strip_prefix('s') {
            return rest.parse().ok();
        }
        return inner.parse::<i32>().ok().map(|n| n + 1);
    }
    shown.parse().ok()
}

pub fn request(id: i32, method: &str, params: Option<Value>) -> lsp_server::Message {
    lsp_server::Message::Request(lsp_server::Request {
        id: id.into(),
        method: method.to_string(),
        params: params.unwrap_or(Value::Null),
    })
}

pub fn notification(method: &str, params: Value) -> lsp_server::Message {
    lsp_server::Message::Notification(lsp_server::Notification {
        method: method.to_string(),
        params,
    })
}

pub fn initialize_params(root_uri: &str, caps: &crate::script::Swarm) -> Value {
    let mut text_document = json!({
        "synchronization": {"didSave": true},
        "hover": {"contentFormat": ["markdown", "plaintext"]},
    });
    if caps.pull_diagnostics {
        text_document["diagnostic"] = json!({"dynamicRegistration": false, "relatedDocumentSupport": false});
    }
    json!({
        "processId": null,
        "clientInfo": {"name": "sim-client", "version": "0"},
        "locale": "en",
        "rootUri": root_uri,
        "workspaceFolders": [{"uri": root_uri, "name": "ws"}],
        "capabilities": {
            "workspace": {
                "configuration": caps.config_request,
                "workspaceFolders": true,
                "didChangeWatchedFiles": {"dynamicRegistration": true},
                "diagnostics": {"refreshSupport": true},
                "applyEdit": true,
            },
            "window": {"workDoneProgress": caps.work_done_progress},
            "textDocument": text_document,
        },
    })
}
