//! Batches of seeded runs across worker processes, violation confirmation (replay in a fresh
//! process, twice), minimisation, known-findings handling, evidence.

use std::collections::{BTreeMap, BTreeSet};
use std::time::Instant;

use serde_json::{Map, Value, json};
use simcore::findings::KnownFindings;

use crate::get;
use crate::oracle::{Violation, judge};
use crate::run::Outcome;
use crate::script::{RunSpec, generate};

pub struct RunResult {
    pub out: Outcome,
    pub violations: Vec<Violation>,
}

/// Execute one spec on a fresh thread under its hash seed and judge it (in this process).
pub fn run_spec_inproc(spec: &RunSpec) -> Result<RunResult, String> {
    run_spec_inproc_opts(spec, false)
}

pub fn run_spec_inproc_opts(spec: &RunSpec, capture_sites: bool) -> Result<RunResult, String> {
    let spec = spec.clone();
    let hash_seed = simcore::rng::derive(spec.seed, "hash");
    simcore::on_fresh_thread(hash_seed, 256, move || {
        let out = crate::run::execute_opts(&spec, capture_sites);
        let violations = judge(&spec, &out);
        RunResult { out, violations }
    })
}

/// What a forked child reports about its run.
#[derive(serde::Serialize, serde::Deserialize, Clone, Debug, Default)]
pub struct RunReport {
    pub violations: Vec<(String, String)>,
    pub decisions: Vec<u32>,
    pub trace_digest: String,
    pub final_state: String,
    pub sim_ms: u64,
    pub messages: u64,
    pub picks: u64,
    pub non_fifo_picks: u64,
    pub yields: u64,
    pub lock_events: u64,
    pub max_queue: u64,
    pub counters: BTreeMap<String, u64>,
    pub server_requests: BTreeMap<String, u64>,
    pub order_edges: Vec<String>,
    pub stalled: bool,
    pub panics: Vec<String>,
    pub sample: Value,
    pub error: Option<String>,
}

impl RunReport {
    pub fn has(&self, class: &str) -> bool {
        self.violations.iter().any(|(c, _)| c == class)
    }
}

static WARMED: std::sync::atomic::AtomicBool = std::sync::atomic::AtomicBool::new(false);

/// Initialise lazily-built process state once (deterministically) before any child is forked.
pub fn warm_up() {
    if WARMED.swap(true, std::sync::atomic::Ordering::SeqCst) {
        return;
    }
    for (prop, seed) in [("C27", 0x5eed_0001u64), ("C24", 0x5eed_0002), ("C28", 0x5eed_0003), ("C30", 0x5eed_0004)] {
        let spec = generate(prop, seed);
        let _ = run_spec_inproc(&spec);
    }
}

fn report_of(spec: &RunSpec, r: &RunResult) -> RunReport {
    let mut counters: BTreeMap<String, u64> = r.out.counters.iter().map(|(k, v)| (k.to_string(), *v)).collect();
    if !r.out.panics.is_empty() {
        counters.insert("probe.run_with_server_panic".into(), 1);
    }
    for (k, v) in &r.out.lock_probes {
        *counters.entry(format!("sched.{k}")).or_insert(0) += *v;
    }
    if !spec.sched.stall_target.is_empty() {
        *counters.entry(format!("sched.slow_resource_run:{}", spec.sched.stall_target)).or_insert(0) += 1;
    }
    // shape of the script (what the generator aimed at, so that a blind workload is visible)
    let mut prev_edit: Option<(usize, usize)> = None; // (step index, doc)
    for (i, st) in spec.script.iter().enumerate() {
        match &st.action {
            crate::script::Action::Open { doc, .. } | crate::script::Action::Change { doc, .. } => {
                if let (Some((pi, pd)), crate::script::Gap::SleepMs(ms)) = (prev_edit, &st.gap) {
                    if pi + 1 == i && pd == *doc && (*ms <= 2 || [99, 100, 101, 499, 500, 501, 999, 1000, 1001, 1499, 1500, 1501].contains(ms)) {
                        *counters.entry("script.timer_race_pair".into()).or_insert(0) += 1;
                    }
                }
                prev_edit = Some((i, *doc));
            }
            crate::script::Action::Request { id, .. } => {
                if crate::proto::string_id(*id) {
                    *counters.entry("script.request_with_string_id".into()).or_insert(0) += 1;
                }
                prev_edit = None;
            }
            _ => prev_edit = None,
        }
    }
    RunReport {
        violations: r.violations.iter().map(|v| (v.class.clone(), v.detail.clone())).collect(),
        decisions: r.out.decisions.clone(),
        trace_digest: r.out.trace_digest.clone(),
        final_state: final_state_digest(&r.out),
        sim_ms: r.out.sim_ms,
        messages: r.out.history.len() as u64,
        picks: r.out.picks,
        non_fifo_picks: r.out.non_fifo_picks,
        yields: r.out.yields,
        lock_events: r.out.lock_events,
        max_queue: r.out.max_queue as u64,
        counters,
        server_requests: r.out.server_request_methods.clone(),
        order_edges: r.out.order_edges.iter().map(|(a, b)| format!("{a} -> {b}")).collect(),
        stalled: crate::oracle::stalled(&r.out),
        panics: r.out.panics.clone(),
        sample: sample_of(spec, &r.out),
        error: None,
    }
}

/// Fast path used by batch workers: execute in this process. Results of a run may (rarely)
/// depend on process state left by earlier runs (std's per-thread hash-key counter is shifted by
/// lazily initialised statics), so nothing found this way is reported before it has been
/// reproduced by the isolated, canonical execution (`run_spec`).
pub fn run_spec_fast(spec: &RunSpec) -> RunReport {
    warm_up();
    match run_spec_inproc(spec) {
        Ok(r) => report_of(spec, &r),
        Err(e) => RunReport { error: Some(format!("run thread panicked: {e}")), ..Default::default() },
    }
}

/// Execute one spec in a forked child (identical starting state for every run) and judge it.
pub fn run_spec(spec: &RunSpec, verbose: bool) -> RunReport {
    warm_up();
    let prop = spec.prop.clone();
    let res = simcore::isolate::run_in_child(
        || {
            let rep = match run_spec_inproc_opts(spec, verbose) {
                Ok(r) => {
                    if verbose {
                        print_history(spec, &r.out);
                    }
                    report_of(spec, &r)
                }
                Err(e) => RunReport { error: Some(format!("run thread panicked: {e}")), ..Default::default() },
            };
            serde_json::to_string(&rep).unwrap_or_else(|e| format!("{{\"error\":\"serialise: {e}\"}}"))
        },
        180,
    );
    match res {
        Ok(s) => serde_json::from_str::<RunReport>(&s).unwrap_or_else(|e| RunReport { error: Some(format!("bad child report: {e}")), ..Default::default() }),
        Err(simcore::isolate::ChildError::Died(how)) => RunReport {
            violations: vec![(format!("{prop}:server-process-died:{how}"), "the process running the server died (abort / stack overflow / fatal signal)".into())],
            decisions: spec.decisions.clone().unwrap_or_default(),
            trace_digest: format!("died:{how}"),
            ..Default::default()
        },
        Err(e) => RunReport { error: Some(e.to_string()), ..Default::default() },
    }
}

fn default_runs(prop: &str, tier: &str) -> u64 {
    match (prop, tier) {
        (_, "thorough") => 200_000,
        ("C24", _) => 3000,
        _ => 4000,
    }
}

fn tier_of(args: &[String]) -> String {
    get(args, "--tier").or_else(|| std::env::var("VERIF_TIER").ok()).unwrap_or_else(|| "quick".into())
}

#[derive(Default)]
struct Summary {
    runs: u64,
    nontrivial_runs: u64,
    sim_ms: u64,
    picks: u64,
    nontrivial_picks: u64,
    non_fifo_picks: u64,
    yields: u64,
    lock_events: u64,
    max_queue: u64,
    counters: BTreeMap<String, u64>,
    server_requests: BTreeMap<String, u64>,
    digests: BTreeSet<String>,
    final_states: BTreeSet<String>,
    order_edges: BTreeSet<String>,
    violations: BTreeMap<String, (u64, Value)>, // class -> (count, first example)
    samples: Vec<Value>,
    harness_errors: Vec<String>,
    wall_budget_hit: bool,
}

impl Summary {
    fn to_json(&self) -> Value {
        json!({
            "runs": self.runs,
            "nontrivial_runs": self.nontrivial_runs,
            "sim_ms": self.sim_ms,
            "picks": self.picks,
            "nontrivial_picks": self.nontrivial_picks,
            "non_fifo_picks": self.non_fifo_picks,
            "yields": self.yields,
            "lock_events": self.lock_events,
            "max_queue": self.max_queue,
            "counters": self.counters,
            "server_requests": self.server_requests,
            "digests": self.digests,
            "final_states": self.final_states,
            "order_edges": self.order_edges,
            "violations": self.violations.iter().map(|(k, (n, ex))| (k.clone(), json!({"count": n, "example": ex}))).collect::<Map<String, Value>>(),
            "samples": self.samples,
            "harness_errors": self.harness_errors,
            "wall_budget_hit": self.wall_budget_hit,
        })
    }

    fn merge_json(&mut self, v: &Value) {
        let u = |k: &str| v.get(k).and_then(|x| x.as_u64()).unwrap_or(0);
        self.runs += u("runs");
        self.nontrivial_runs += u("nontrivial_runs");
        self.sim_ms += u("sim_ms");
        self.picks += u("picks");
        self.nontrivial_picks += u("nontrivial_picks");
        self.non_fifo_picks += u("non_fifo_picks");
        self.yields += u("yields");
        self.lock_events += u("lock_events");
        self.max_queue = self.max_queue.max(u("max_queue"));
        self.wall_budget_hit |= v.get("wall_budget_hit").and_then(|b| b.as_bool()).unwrap_or(false);
        for key in ["counters", "server_requests"] {
            if let Some(m) = v.get(key).and_then(|m| m.as_object()) {
                let target = if key == "counters" { &mut self.counters } else { &mut self.server_requests };
                for (k, n) in m {
                    *target.entry(k.clone()).or_insert(0) += n.as_u64().unwrap_or(0);
                }
            }
        }
        for (key, set) in [("digests", &mut self.digests), ("final_states", &mut self.final_states), ("order_edges", &mut self.order_edges)] {
            if let Some(a) = v.get(key).and_then(|a| a.as_array()) {
                for s in a {
                    if let Some(s) = s.as_str() {
                        set.insert(s.to_string());
                    }
                }
            }
        }
        if let Some(m) = v.get("violations").and_then(|m| m.as_object()) {
            for (class, e) in m {
                let n = e.get("count").and_then(|c| c.as_u64()).unwrap_or(0);
                let ex = e.get("example").cloned().unwrap_or(Value::Null);
                let ent = self.violations.entry(class.clone()).or_insert((0, ex.clone()));
                ent.0 += n;
                // keep the example with the smallest run index so the result does not depend on worker count
                let idx = |x: &Value| x.get("index").and_then(|i| i.as_u64()).unwrap_or(u64::MAX);
                if idx(&ex) < idx(&ent.1) {
                    ent.1 = ex;
                }
            }
        }
        if let Some(a) = v.get("samples").and_then(|a| a.as_array()) {
            for s in a {
                if self.samples.len() < 3 {
                    self.samples.push(s.clone());
                }
            }
        }
        if let Some(a) = v.get("harness_errors").and_then(|a| a.as_array()) {
            for s in a {
                self.harness_errors.push(s.as_str().unwrap_or("").to_string());
            }
        }
    }
}

fn final_state_digest(out: &Outcome) -> String {
    let mut d = simcore::Digest::new();
    for (doc, id) in out.tree_probe.iter().chain(out.tree_probe2.iter()) {
        d.u64(*doc as u64);
        d.str(&format!("{:?}", crate::oracle::probe_of(out, *id)));
    }
    for (uri, ps) in &out.publishes {
        if let Some(p) = ps.last() {
            d.str(uri.rsplit('/').next().unwrap_or(""));
            d.str(&crate::c30::canon(&p.diagnostics).join("|"));
        }
    }
    d.hex()
}

fn sample_of(spec: &RunSpec, out: &Outcome) -> Value {
    json!({
        "seed": spec.seed,
        "swarm": spec.swarm,
        "sched": spec.sched,
        "docs": spec.docs.iter().map(|d| json!({"rel": d.rel, "on_disk": d.on_disk.is_some(), "in_workspace": d.in_workspace})).collect::<Vec<_>>(),
        "script": spec.script.iter().map(|s| {
            let a = serde_json::to_value(&s.action).unwrap_or(Value::Null);
            // drop texts from the sample to keep it short
            let a = match a { Value::Object(m) => Value::Object(m.into_iter().map(|(k, mut v)| { if let Some(o) = v.as_object_mut() { o.remove("text"); } (k, v) }).collect()), x => x };
            json!({"gap": s.gap, "action": a})
        }).collect::<Vec<_>>(),
        "simulated_ms": out.sim_ms,
        "messages": out.history.len(),
        "scheduler_decisions": out.decisions.len(),
        "trace_digest": out.trace_digest,
    })
}

fn worker(prop: &str, base: u64, runs: u64, k: u64, n: u64, wall_budget_s: u64, isolated: bool) -> Summary {
    let t0 = Instant::now();
    let mut s = Summary::default();
    let mut i = k;
    while i < runs {
        if wall_budget_s > 0 && t0.elapsed().as_secs() >= wall_budget_s {
            s.wall_budget_hit = true;
            break;
        }
        let seed = simcore::rng::run_seed(base, i);
        let mut spec = generate(prop, seed);
        let mut r = if isolated { run_spec(&spec, false) } else { run_spec_fast(&spec) };
        if !isolated && r.violations.iter().any(|v| !s.violations.contains_key(&v.0)) {
            // canonical (isolated) re-execution decides what is reported
            let fast_classes: Vec<String> = r.violations.iter().map(|v| v.0.clone()).collect();
            let mut canon = run_spec(&spec, false);
            if canon.error.is_none() && !fast_classes.iter().all(|c| canon.has(c)) {
                // same script under a few other scheduler streams, isolated
                for salt in 1..=3u64 {
                    let mut alt = spec.clone();
                    alt.sched_salt = salt;
                    let c2 = run_spec(&alt, false);
                    if c2.error.is_none() && fast_classes.iter().any(|c| c2.has(c)) {
                        canon = c2;
                        spec.sched_salt = salt;
                        break;
                    }
                }
            }
            let lost = fast_classes.iter().filter(|c| !canon.has(c)).count() as u64;
            if lost > 0 {
                *s.counters.entry("harness.fast_path_candidates_not_reproduced_in_isolation".into()).or_insert(0) += lost;
            }
            *s.counters.entry("harness.isolated_confirmations".into()).or_insert(0) += 1;
            let keep_counters = r.counters.clone();
            r = canon;
            if r.error.is_none() {
                r.counters = keep_counters;
            }
        }
        if let Some(e) = &r.error {
            s.harness_errors.push(format!("run {i} (seed {seed}): {e}"));
        } else {
            s.runs += 1;
            s.sim_ms += r.sim_ms;
            s.picks += r.picks;
            s.nontrivial_picks += r.picks;
            s.non_fifo_picks += r.non_fifo_picks;
            s.yields += r.yields;
            s.lock_events += r.lock_events;
            s.max_queue = s.max_queue.max(r.max_queue);
            if r.picks > 0 {
                s.nontrivial_runs += 1;
                s.digests.insert(r.trace_digest.clone());
            }
            s.final_states.insert(r.final_state.clone());
            for e in &r.order_edges {
                s.order_edges.insert(e.clone());
            }
            for (k2, v) in &r.counters {
                *s.counters.entry(k2.clone()).or_insert(0) += v;
            }
            if r.stalled {
                *s.counters.entry("probe.run_stalled".into()).or_insert(0) += 1;
            }
            for (m, v) in &r.server_requests {
                *s.server_requests.entry(m.clone()).or_insert(0) += v;
            }
            if s.samples.len() < 2 && i < 2 * n {
                s.samples.push(r.sample.clone());
            }
            for (class, detail) in &r.violations {
                let ent = s.violations.entry(class.clone()).or_insert((0, Value::Null));
                ent.0 += 1;
                if ent.1.is_null() {
                    let mut sp = spec.clone();
                    sp.decisions = Some(r.decisions.clone());
                    ent.1 = json!({"index": i, "detail": detail, "digest": r.trace_digest, "spec": sp});
                }
            }
        }
        i += n;
    }
    s
}

pub fn check(args: &[String]) -> i32 {
    let prop = get(args, "--prop").expect("--prop");
    let tier = tier_of(args);
    let base = simcore::verif_seed();
    let runs: u64 = get(args, "--runs").and_then(|s| s.parse().ok()).unwrap_or_else(|| default_runs(&prop, &tier));
    let wall_budget: u64 = get(args, "--wall-s").and_then(|s| s.parse().ok()).unwrap_or(if tier == "thorough" { 900 } else { 0 });
    if let Some(w) = get(args, "--worker") {
        let (k, n) = simcore::workers::parse_worker(&w).expect("k/n");
        crate::run::quiet_stderr();
        let isolated = args.iter().any(|a| a == "--isolated");
        let s = worker(&prop, base, runs, k as u64, n as u64, wall_budget, isolated);
        println!("{}", s.to_json());
        return 0;
    }
    println!("VERIF_SEED={base} property={prop} tier={tier} runs={runs} engine=E-LS");
    let t0 = Instant::now();
    let n = simcore::workers::worker_count();
    let outs = match simcore::workers::fan_out(&[vec!["check".to_string()], args.to_vec()].concat(), n) {
        Ok(o) => o,
        Err(e) => {
            println!("HARNESS-ERROR {e}");
            return 2;
        }
    };
    let mut total = Summary::default();
    for o in outs {
        match serde_json::from_str::<Value>(o.trim()) {
            Ok(v) => total.merge_json(&v),
            Err(e) => {
                println!("HARNESS-ERROR worker output not JSON: {e}");
                return 2;
            }
        }
    }
    if !total.harness_errors.is_empty() {
        for e in total.harness_errors.iter().take(5) {
            println!("HARNESS-ERROR {e}");
        }
        return 2;
    }

    // ---- violations: confirm, minimise, classify against known findings
    let known = KnownFindings::load();
    let mut new_violations = 0;
    let mut known_hits = 0;
    let mut harness_fail = false;
    let mut violation_report = Vec::new();
    let min_t0 = Instant::now();
    for (class, (count, ex)) in &total.violations {
        let Some(spec_v) = ex.get("spec") else { continue };
        let spec: RunSpec = match serde_json::from_value(spec_v.clone()) {
            Ok(s) => s,
            Err(e) => {
                println!("HARNESS-ERROR bad example spec for {class}: {e}");
                harness_fail = true;
                continue;
            }
        };
        let detail = ex.get("detail").and_then(|d| d.as_str()).unwrap_or("");
        let is_known = known.matches(&prop, class);
        // known findings are not minimised again on every run (keeps quick runs quick)
        let minimised = if is_known.is_some() || min_t0.elapsed().as_secs() > 90 { spec.clone() } else { minimise(&spec, class, 400, 15) };
        let path = write_replay(&prop, class, &minimised, detail);
        // a violation must reproduce from its replay file in a fresh process: one records the
        // trace digest of the canonical execution, two more confirm it
        let ok = record_replay(&path, class) && confirm_replay(&path, class) && confirm_replay(&path, class);
        if !ok {
            println!("HARNESS-ERROR violation class {class} did not reproduce from {path} in a fresh process");
            harness_fail = true;
            continue;
        }
        violation_report.push(json!({"class": class, "runs": count, "replay": path, "known": is_known.is_some(), "minimised_steps": minimised.script.len(), "original_steps": spec.script.len()}));
        if let Some(f) = is_known {
            known_hits += 1;
            println!("KNOWN-FINDING: property={prop} {} [class {class}, {count} of {} runs, replay={path}]", f.what, total.runs);
        } else {
            new_violations += 1;
            println!("VIOLATION property={prop} replay={path}");
            println!("  class: {class}  ({count} of {} runs)", total.runs);
            println!("  detail: {detail}");
            println!("  minimised script: {} steps (from {}), {} scheduler decisions", minimised.script.len(), spec.script.len(), minimised.decisions.as_ref().map(|d| d.len()).unwrap_or(0));
        }
    }

    // ---- evidence
    let wall = t0.elapsed().as_secs_f64();
    let mut cov = Map::new();
    cov.insert("evaluations".into(), json!(total.runs));
    cov.insert("distinct_nontrivial".into(), json!(total.digests.len()));
    cov.insert("rule".into(), json!("one evaluation = one seeded run of the real language server (random swarm configuration, document set, client script, scheduler policy) under the owned tokio scheduler/clock/transport; non-trivial = the scheduler had at least one real choice (>=2 runnable tasks); distinct = distinct digests of (scheduler decisions, lock trace, every message with its simulated timestamp)"));
    cov.insert("samples".into(), Value::Array(total.samples.clone()));
    cov.insert("runs_per_hour".into(), json!((total.runs as f64 / wall * 3600.0) as u64));
    cov.insert("simulated_seconds".into(), json!(total.sim_ms / 1000));
    cov.insert("scheduler_picks".into(), json!(total.picks));
    cov.insert("scheduler_picks_with_choice".into(), json!(total.nontrivial_picks));
    cov.insert("scheduler_non_fifo_picks".into(), json!(total.non_fifo_picks));
    cov.insert("pre_acquire_yields_injected".into(), json!(total.yields));
    cov.insert("lock_events_traced".into(), json!(total.lock_events));
    cov.insert("max_run_queue".into(), json!(total.max_queue));
    cov.insert("distinct_interleavings".into(), json!(total.digests.len()));
    cov.insert("distinct_final_states".into(), json!(total.final_states.len()));
    cov.insert("faults_fired_and_probes_hit".into(), json!(total.counters));
    cov.insert("server_to_client_requests".into(), json!(total.server_requests));
    cov.insert("lock_order_edges_observed".into(), json!(total.order_edges));
    cov.insert("violation_classes".into(), Value::Array(violation_report));
    cov.insert("known_findings_hit".into(), json!(known_hits));
    cov.insert("wall_budget_hit".into(), json!(total.wall_budget_hit));
    cov.insert("workers".into(), json!(n));
    cov.insert("real_components".into(), json!(["emmylua_ls::run_ls (handshake, main loop, dispatch, all handlers)", "WorkspaceManager", "FileDiagnostic", "ClientProxy", "EmmyLuaAnalysis and everything below", "tokio sync primitives and timers (paused clock)", "file system (scratch directory)"]));
    cov.insert("stubbed_components".into(), json!(["stdio framing and I/O threads (in-memory lsp_server::Connection)", "spawn_blocking receiver pump (injected inbox, hook H1)", "notify watcher (client model delivers watcher events)", "multi-thread work-stealing scheduler (seeded current-thread scheduler)", "std library loading (off)"]));
    simcore::evidence::Evidence {
        property_id: prop.clone(),
        tier: tier.clone(),
        seed: base,
        level: "exploration".into(),
        coverage: cov,
        assumptions: vec![
            "tasks interleave at awaits and at seeded yields before tokio lock/semaphore/bounded-send acquisitions; synchronous stretches are atomic".into(),
            "client->server JSON-RPC is reliable FIFO (as a pipe is); watcher events may be delayed, duplicated and reordered but the last change to a path is eventually reported".into(),
            "vendored tokio 1.52.3 / foldhash 0.2.0 seam patches (see vendor/*.patch) do not change behaviour when no controller is installed".into(),
        ],
        wall_s: wall,
        violations: new_violations,
    }
    .write();
    println!(
        "runs={} distinct_interleavings={} simulated_s={} wall_s={:.1} new_violations={} known_findings={}",
        total.runs,
        total.digests.len(),
        total.sim_ms / 1000,
        wall,
        new_violations,
        known_hits
    );
    if harness_fail {
        return 2;
    }
    if new_violations > 0 { 1 } else { 0 }
}

fn has_class(spec: &RunSpec, class: &str) -> Option<RunReport> {
    let r = run_spec(spec, false);
    if r.error.is_none() && r.has(class) { Some(r) } else { None }
}

/// Candidate evaluation for the minimiser: fast in-process execution (the final result is
/// confirmed by the isolated execution before it is used).
fn has_class_fast(spec: &RunSpec, class: &str) -> Option<RunReport> {
    let r = run_spec_fast(spec);
    if r.error.is_none() && r.has(class) { Some(r) } else { None }
}

/// Delta-debug the script (and then the decision list) while the same violation class persists.
fn minimise(spec: &RunSpec, class: &str, budget: usize, wall_s: u64) -> RunSpec {
    let t0 = Instant::now();
    let mut best = spec.clone();
    let mut evals = 0usize;
    let budget = budget; // evaluations; additionally bounded by wall_s seconds
    // candidate evaluation: original decisions padded with defaults, then a few fresh streams
    let mut try_script = |script: &[crate::script::Step], best: &RunSpec, evals: &mut usize| -> Option<RunSpec> {
        let mut cand = best.clone();
        cand.script = script.to_vec();
        *evals += 1;
        if let Some(r) = has_class_fast(&cand, class) {
            cand.decisions = Some(r.decisions.clone());
            return Some(cand);
        }
        for salt in 1..=4u64 {
            let mut c2 = cand.clone();
            c2.decisions = None;
            c2.sched_salt = salt;
            *evals += 1;
            if let Some(r) = has_class_fast(&c2, class) {
                c2.decisions = Some(r.decisions.clone());
                return Some(c2);
            }
        }
        None
    };
    // ddmin over steps
    let mut n = 2usize;
    while best.script.len() >= 2 && evals < budget && t0.elapsed().as_secs() < wall_s {
        let len = best.script.len();
        let chunk = len.div_ceil(n);
        let mut reduced = false;
        let mut i = 0;
        while i < len && evals < budget && t0.elapsed().as_secs() < wall_s {
            let end = (i + chunk).min(len);
            let mut cand: Vec<_> = best.script[..i].to_vec();
            cand.extend_from_slice(&best.script[end..]);
            if let Some(b) = try_script(&cand, &best, &mut evals) {
                best = b;
                n = (n - 1).max(2);
                reduced = true;
                break;
            }
            i = end;
        }
        if !reduced {
            if n >= len {
                break;
            }
            n = (n * 2).min(len);
        }
    }
    // simplify gaps to Zero where possible
    for i in 0..best.script.len() {
        if evals >= budget || t0.elapsed().as_secs() >= wall_s {
            break;
        }
        if best.script[i].gap != crate::script::Gap::Zero {
            let mut cand = best.script.clone();
            cand[i].gap = crate::script::Gap::Zero;
            if let Some(b) = try_script(&cand, &best, &mut evals) {
                best = b;
            }
        }
    }
    // shorten the explicit decision list: shortest prefix (rest = FIFO / no yield) that still fails
    if let Some(dec) = best.decisions.clone() {
        let (mut lo, mut hi) = (0usize, dec.len());
        while lo < hi && evals < budget + 40 {
            let mid = (lo + hi) / 2;
            let mut cand = best.clone();
            cand.decisions = Some(dec[..mid].to_vec());
            evals += 1;
            if has_class_fast(&cand, class).is_some() {
                hi = mid;
            } else {
                lo = mid + 1;
            }
        }
        let mut cand = best.clone();
        cand.decisions = Some(dec[..hi].to_vec());
        if has_class_fast(&cand, class).is_some() {
            best = cand;
        }
    }
    // the isolated execution is canonical: keep the minimised spec only if it reproduces there
    match has_class(&best, class) {
        Some(r) => {
            best.decisions = Some(r.decisions.clone());
            best
        }
        None => spec.clone(),
    }
}

fn write_replay(prop: &str, class: &str, spec: &RunSpec, detail: &str) -> String {
    let dir = format!("{}/{prop}", std::env::var("VERIF_REPLAY_DIR").unwrap_or_else(|_| "/verif/replays".into()));
    let _ = std::fs::create_dir_all(&dir);
    let path = format!("{dir}/{}.json", simcore::digest_str(class));
    // the digest is recorded by a fresh process (see `record_replay`)
    let digest = String::new();
    let v = json!({
        "property": prop,
        "engine": "E-LS/1",
        "violation_class": class,
        "detail": detail,
        "trace_digest": digest,
        "spec": spec,
    });
    std::fs::write(&path, serde_json::to_string_pretty(&v).unwrap()).expect("write replay");
    path
}

fn record_replay(path: &str, class: &str) -> bool {
    let exe = std::env::current_exe().expect("exe");
    match std::process::Command::new(exe).args(["replay", "--file", path, "--quiet", "--record"]).output() {
        Ok(o) => String::from_utf8_lossy(&o.stdout).lines().any(|l| l.starts_with("REPLAY-RECORDED") && l.contains(&format!("class={class}"))),
        Err(_) => false,
    }
}

fn confirm_replay(path: &str, class: &str) -> bool {
    let exe = std::env::current_exe().expect("exe");
    let out = std::process::Command::new(exe).args(["replay", "--file", path, "--quiet"]).output();
    match out {
        Ok(o) => {
            let so = String::from_utf8_lossy(&o.stdout);
            so.lines().any(|l| l.starts_with("REPLAY-OK") && l.contains(&format!("class={class}")))
        }
        Err(_) => false,
    }
}

/// `replay --file F`: re-execute the recorded spec (explicit decisions) and report.
pub fn replay_cmd(args: &[String]) -> i32 {
    let file = get(args, "--file").expect("--file");
    let quiet = args.iter().any(|a| a == "--quiet");
    let text = std::fs::read_to_string(&file).expect("read replay file");
    let v: Value = serde_json::from_str(&text).expect("replay json");
    let spec: RunSpec = serde_json::from_value(v["spec"].clone()).expect("spec");
    let class = v["violation_class"].as_str().unwrap_or("").to_string();
    let want_digest = v["trace_digest"].as_str().unwrap_or("").to_string();
    let prop = spec.prop.clone();
    if quiet {
        crate::run::quiet_stderr();
    }
    let r = run_spec(&spec, !quiet);
    if let Some(e) = &r.error {
        println!("HARNESS-ERROR {e}");
        return 2;
    }
    if args.iter().any(|a| a == "--record") {
        if r.has(&class) {
            let mut doc = v.clone();
            doc["trace_digest"] = Value::from(r.trace_digest.clone());
            std::fs::write(&file, serde_json::to_string_pretty(&doc).unwrap()).expect("write replay");
            println!("REPLAY-RECORDED class={class} digest={}", r.trace_digest);
            return 1;
        }
        println!("REPLAY-CLEAN recorded class {class} not reproduced");
        return 0;
    }
    let same_class = r.has(&class);
    let same_digest = r.trace_digest == want_digest;
    if !quiet {
        for (c, d) in &r.violations {
            println!("violation: {c} -- {d}");
        }
    }
    if same_class && same_digest {
        println!("REPLAY-OK class={class} digest={}", r.trace_digest);
        println!("VIOLATION property={prop} replay={file}");
        1
    } else if same_class {
        println!("REPLAY-DIVERGED class={class} reproduced but trace digest {} != recorded {}", r.trace_digest, want_digest);
        2
    } else {
        println!("REPLAY-CLEAN recorded class {class} not reproduced (classes now: {:?})", r.violations.iter().map(|x| &x.0).collect::<Vec<_>>());
        0
    }
}

pub fn print_history(spec: &RunSpec, out: &Outcome) {
    println!("--- swarm: {}", serde_json::to_string(&spec.swarm).unwrap_or_default());
    println!("--- sched: {}", serde_json::to_string(&spec.sched).unwrap_or_default());
    for (i, d) in spec.docs.iter().enumerate() {
        println!("--- doc {i}: {} on_disk={} in_workspace={}", d.rel, d.on_disk.is_some(), d.in_workspace);
    }
    for (i, s) in spec.script.iter().enumerate() {
        println!("--- step {i}: {:?} {:?}", s.gap, s.action);
    }
    for (seq, e) in out.history.iter().enumerate() {
        let m = serde_json::to_string(&e.msg).unwrap_or_default();
        let m: String = m.chars().take(300).collect();
        println!("{seq:4} t={:>7}ms {} {}", e.t_ms, match e.dir { crate::run::Dir::C2S => "C->S", crate::run::Dir::S2C => "S->C" }, m);
    }
    println!("--- server: {:?} exited={} watchdog={} sim_ms={}", out.server_result, out.server_exited, out.watchdog_fired, out.sim_ms);
    println!("--- picks={} with_choice={} non_fifo={} yields={} lock_events={} decisions={}", out.picks, out.nontrivial_picks, out.non_fifo_picks, out.yields, out.lock_events, out.decisions.len());
    println!("--- order edges: {:?}", out.order_edges);
    println!("--- reacquire: {:?}", out.reacquire);
    println!("--- reacquire sites: {:?}", out.reacquire_sites);
    println!("--- wait graph: {:?}", out.wait_graph);
    println!("--- panics: {:?}", out.panics);
    println!("--- counters: {:?}", out.counters);
    println!("--- digest: {}", out.trace_digest);
}

pub fn one(args: &[String]) -> i32 {
    let prop = get(args, "--prop").expect("--prop");
    let base = simcore::verif_seed();
    let index: u64 = get(args, "--index").and_then(|s| s.parse().ok()).unwrap_or(0);
    // --warm a,b,c: execute these run indices first in the same process (order-dependence hunts)
    if let Some(w) = get(args, "--warm") {
        for i in w.split(',').filter_map(|x| x.parse::<u64>().ok()) {
            let _ = run_spec_inproc(&generate(&prop, simcore::rng::run_seed(base, i)));
        }
    }
    let seed = simcore::rng::run_seed(base, index);
    let spec = generate(&prop, seed);
    let r = run_spec(&spec, args.iter().any(|a| a == "-v"));
    if let Some(e) = &r.error {
        println!("HARNESS-ERROR {e}");
        return 2;
    }
    for (c, d) in &r.violations {
        println!("violation: {c} -- {d}");
    }
    println!("digest={} sim_ms={} msgs={}", r.trace_digest, r.sim_ms, r.messages);
    0
}

/// Print `index digest classes` per run: two invocations (different processes, orders, worker
/// counts) must print identical lines.
pub fn digests(args: &[String]) -> i32 {
    let prop = get(args, "--prop").expect("--prop");
    let base = simcore::verif_seed();
    let runs: u64 = get(args, "--runs").and_then(|s| s.parse().ok()).unwrap_or(32);
    let reverse = args.iter().any(|a| a == "--reverse");
    crate::run::quiet_stderr();
    let mut idx: Vec<u64> = (0..runs).collect();
    if reverse {
        idx.reverse();
    }
    let mut lines = Vec::new();
    for i in idx {
        let spec = generate(&prop, simcore::rng::run_seed(base, i));
        let r = run_spec(&spec, false);
        match &r.error {
            None => lines.push((i, format!("{i} {} {:?}", r.trace_digest, r.violations.iter().map(|v| v.0.clone()).collect::<Vec<_>>()))),
            Some(e) => lines.push((i, format!("{i} ERROR {e}"))),
        }
    }
    lines.sort();
    for (_, l) in lines {
        println!("{l}");
    }
    0
}
