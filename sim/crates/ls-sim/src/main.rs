//! E-LS: the language server as a simulated system. See /verif/DESIGN.md §3.
//!
//!   ls-sim check --prop C27 [--tier quick|thorough] [--runs N]
//!   ls-sim replay --file replays/C27/<digest>.json
//!   ls-sim one --prop C27 --index 3 [-v]
//!   ls-sim digests --prop C27 --runs 32        (determinism self-test helper)

mod batch;
mod c30;
mod c36;
mod controller;
mod oracle;
mod proto;
mod run;
mod script;

simcore::define_getrandom!();

fn arg(args: &[String], name: &str) -> Option<String> {
    args.iter().position(|a| a == name).and_then(|i| args.get(i + 1).cloned())
}

fn main() {
    let args: Vec<String> = std::env::args().skip(1).collect();
    if args.is_empty() {
        eprintln!("usage: ls-sim check|replay|one|digests ...");
        std::process::exit(2);
    }
    simcore::ensure_no_aslr();
    run::prepare_process_env();
    if get(&args, "--prop").as_deref() == Some("C36") || (args[0] == "replay" && get(&args, "--file").map(|f| f.contains("/C36/")).unwrap_or(false)) {
        let code = simcore::driver::main_dispatch(&c36::Check36);
        run::cleanup_process_env();
        std::process::exit(code);
    }
    let code = match args[0].as_str() {
        "check" => batch::check(&args[1..]),
        "replay" => batch::replay_cmd(&args[1..]),
        "one" => batch::one(&args[1..]),
        "digests" => batch::digests(&args[1..]),
        other => {
            eprintln!("unknown command {other}");
            2
        }
    };
    run::cleanup_process_env();
    std::process::exit(code);
}

pub(crate) fn get(args: &[String], name: &str) -> Option<String> {
    arg(args, name)
}
