//! Oracles over the recorded history of one run. Each returns violations named in a small closed
//! vocabulary (`<property>:<observable category>[:<trigger>]`).

use serde_json::Value;

use crate::run::Outcome;
use crate::script::{RunSpec, markers_in};

#[derive(Clone, Debug)]
pub struct Violation {
    pub class: String,
    pub detail: String,
}

fn v(class: impl Into<String>, detail: impl Into<String>) -> Violation {
    Violation { class: class.into(), detail: detail.into() }
}

/// Is document `d` a workspace file under the configuration in force at the end of the run?
/// Documents outside the file pattern are filtered by design (`is_workspace_file`) and never
/// analysed; the last .emmyrc.json written may exclude the `deep/` directories.
pub fn workspace_file_at_end(spec: &RunSpec, out: &Outcome, d: usize) -> bool {
    spec.docs[d].in_workspace && !(out.ignore_deep_final && spec.docs[d].rel.contains("deep/"))
}

#[derive(Debug, Clone, PartialEq)]
pub enum Probe {
    Unanswered,
    Error(String),
    Absent,
    Present(Vec<(usize, u32)>),
}

pub fn probe_of(out: &Outcome, id: i32) -> Probe {
    let Some(rs) = out.responses.get(&id) else { return Probe::Unanswered };
    let Some((_, r)) = rs.first() else { return Probe::Unanswered };
    if let Some(e) = &r.error {
        return Probe::Error(format!("{}: {}", e.code, e.message));
    }
    match &r.result {
        None | Some(Value::Null) => Probe::Absent,
        Some(val) => {
            let content = val.get("content").and_then(|c| c.as_str()).unwrap_or("");
            Probe::Present(markers_in(content))
        }
    }
}

/// The version marker a text carries. Markers are `(document the text was written for, n)`; a
/// file renamed on disk keeps the marker of the document it was written for, so markers are
/// compared as pairs, never filtered by the document that currently holds the text.
fn only_marker(text: &str) -> Option<(usize, u32)> {
    markers_in(text).into_iter().next()
}

/// True when any probe (document trees, fresh-document hover) went unanswered: the server
/// stopped serving. Reported by C28 (and by C24 as "stopped serving").
pub fn stalled(out: &Outcome) -> bool {
    if out.watchdog_fired {
        return true;
    }
    let mut ids: Vec<i32> = out.tree_probe.iter().map(|(_, i)| *i).collect();
    ids.extend(out.tree_probe2.iter().map(|(_, i)| *i));
    ids.extend(out.sem_probe.iter().map(|(_, i)| *i));
    ids.extend(out.hover_probe);
    ids.extend(out.fresh_probe);
    ids.iter().any(|i| !out.responses.contains_key(i))
}

/// C27 / C29: what the analysis holds for every judged document after quiescence.
pub fn content_oracle(prop: &str, spec: &RunSpec, out: &Outcome) -> Vec<Violation> {
    let mut vs = Vec::new();
    if spec.swarm.bad_initialize {
        return vs;
    }
    if stalled(out) {
        // nothing can be read from a server that stopped answering; C28 reports the stall
        return vs;
    }
    for (d, id) in &out.tree_probe {
        let ds = &spec.docs[*d];
        if !workspace_file_at_end(spec, out, *d) {
            continue; // filtered by design (`is_workspace_file`), never analysed
        }
        let p = probe_of(out, *id);
        let editor = &out.editor_at_probe[*d];
        let disk = &out.disk_at_probe[*d];
        match (editor, disk) {
            (Some(text), _) => {
                let want = only_marker(text);
                match &p {
                    Probe::Present(ms) => {
                        let got: Vec<(usize, u32)> = ms.clone();
                        if got.len() != 1 || Some(got[0]) != want {
                            let kind = if got.len() == 1 && want.map(|w| w.0 == got[0].0 && got[0].1 < w.1).unwrap_or(false) { "older-text" } else { "other-text" };
                            vs.push(v(
                                format!("{prop}:open-doc-shows-{kind}"),
                                format!("doc {d} ({}) open with marker {want:?}, analysis shows {got:?}", ds.rel),
                            ));
                        }
                    }
                    Probe::Absent => vs.push(v(
                        format!("{prop}:open-doc-absent"),
                        format!("doc {d} ({}) is open with marker {want:?} but the analysis has no such file", ds.rel),
                    )),
                    other => vs.push(v(format!("{prop}:probe-failed"), format!("doc {d}: {other:?}"))),
                }
            }
            (None, None) => {
                if let Probe::Present(ms) = &p {
                    vs.push(v(
                        format!("{prop}:closed-doc-not-on-disk-still-present"),
                        format!("doc {d} ({}) closed and not on disk, analysis still shows {ms:?}", ds.rel),
                    ));
                }
            }
            (None, Some(disk_text)) => {
                let want = only_marker(disk_text);
                // The ordinary didClose path keeps the editor text of a dirty document; a reload
                // re-reads every closed file from disk. The discarded editor text is therefore
                // tolerated unless a reload certainly *started after the close was handled*: a
                // watcher event for .emmyrc.json sent after the didClose (FIFO main loop: the close
                // is handled first; the event always schedules a reload, which runs to completion
                // within the settle period). A didChangeConfiguration only reloads when the
                // client's answer changed, and a reload that was already running when the close
                // arrived may legitimately finish before the close is handled - neither is a
                // sound reason to demand the disk content.
                let reload_after_close = out.close_seq[*d].map(|cs| {
                    out.history.iter().enumerate().any(|(i, e)| {
                        i > cs
                            && i < out.probe_start_seq
                            && matches!(e.dir, crate::run::Dir::C2S)
                            && matches!(&e.msg, lsp_server::Message::Notification(n)
                                if n.method == "workspace/didChangeWatchedFiles"
                                    && n.params.get("changes").and_then(|c| c.as_array()).map(|a| a.iter().any(|c| {
                                        c.get("uri").and_then(|u| u.as_str()).map(|u| u.ends_with("/.emmyrc.json")).unwrap_or(false)
                                            && c.get("type").and_then(|t| t.as_u64()) != Some(3)
                                    })).unwrap_or(false))
                    })
                });
                let reconciled = out.close_reconciled_by_reload.get(*d).copied().unwrap_or(false);
                let dirty = if reload_after_close == Some(true) || reconciled {
                    None
                } else {
                    out.dirty_closed[*d].as_deref().and_then(only_marker)
                };
                match &p {
                    Probe::Present(ms) => {
                        let got: Vec<(usize, u32)> = ms.clone();
                        let ok = got.len() == 1 && (Some(got[0]) == want || (dirty.is_some() && Some(got[0]) == dirty));
                        if !ok {
                            vs.push(v(
                                format!("{prop}:closed-doc-shows-wrong-text"),
                                format!(
                                    "doc {d} ({}) closed, disk marker {want:?}, dirty-close marker {dirty:?}, analysis shows {got:?}",
                                    ds.rel
                                ),
                            ));
                        }
                    }
                    Probe::Absent => vs.push(v(
                        format!("{prop}:closed-doc-on-disk-absent"),
                        format!("doc {d} ({}) closed and on disk (marker {want:?}) but absent from the analysis", ds.rel),
                    )),
                    other => vs.push(v(format!("{prop}:probe-failed"), format!("doc {d}: {other:?}"))),
                }
            }
        }
    }
    // semantic probe: where the tree probe shows exactly the expected text, what the index knows
    // about that text (hover on the marker local, line 0) must name the same marker. A stale
    // index under a fresh tree (text stored, analysis skipped) is invisible to the tree probe.
    for (d, id) in &out.sem_probe {
        let ds = &spec.docs[*d];
        if !workspace_file_at_end(spec, out, *d) {
            continue;
        }
        let expected = match (&out.editor_at_probe[*d], &out.disk_at_probe[*d]) {
            (Some(t), _) => only_marker(t),
            (None, Some(t)) => only_marker(t),
            _ => None,
        };
        let Some(want) = expected else { continue };
        // only judged when the tree probe agrees on the text (otherwise the classes above report)
        let tree_ok = out
            .tree_probe
            .iter()
            .find(|(dd, _)| dd == d)
            .map(|(_, tid)| matches!(probe_of(out, *tid), Probe::Present(ms) if ms == vec![want]))
            .unwrap_or(false);
        if !tree_ok {
            continue;
        }
        let hover_text = out
            .responses
            .get(id)
            .and_then(|rs| rs.first())
            .map(|(_, r)| match (&r.result, &r.error) {
                (Some(v), _) => v.to_string(),
                (_, Some(e)) => format!("error {}: {}", e.code, e.message),
                _ => "null".to_string(),
            })
            .unwrap_or_else(|| "unanswered".into());
        let got = markers_in(&hover_text);
        if got != vec![want] {
            let state = if out.editor_at_probe[*d].is_some() { "open" } else { "closed" };
            vs.push(v(
                format!("{prop}:{state}-doc-semantic-info-stale"),
                format!(
                    "doc {d} ({}) holds the text with marker {want:?} but hover on its marker local answers {}",
                    ds.rel,
                    hover_text.chars().take(160).collect::<String>()
                ),
            ));
        }
    }
    // second pass: closed documents on disk were rewritten externally + watcher event: a server
    // that treats them as closed must pick the new content up (open files ignore disk changes).
    for (d, id) in &out.tree_probe2 {
        let ds = &spec.docs[*d];
        if !workspace_file_at_end(spec, out, *d) {
            continue;
        }
        let want = out.disk[*d].as_deref().and_then(only_marker);
        match probe_of(out, *id) {
            Probe::Present(ms) => {
                let got: Vec<(usize, u32)> = ms;
                if got.len() != 1 || Some(got[0]) != want {
                    vs.push(v(
                        format!("{prop}:closed-doc-ignores-disk-change"),
                        format!("doc {d} ({}) closed; disk rewritten to marker {want:?} and reported; analysis shows {got:?}", ds.rel),
                    ));
                }
            }
            Probe::Absent => vs.push(v(
                format!("{prop}:closed-doc-on-disk-absent"),
                format!("doc {d} ({}) closed; disk rewritten to {want:?} and reported; absent from the analysis", ds.rel),
            )),
            other => vs.push(v(format!("{prop}:probe-failed"), format!("doc {d}: {other:?}"))),
        }
    }
    vs
}

/// C24: every request id gets exactly one response (result xor error); the server keeps serving.
pub fn c24(spec: &RunSpec, out: &Outcome) -> Vec<Violation> {
    let mut vs = Vec::new();
    for r in &out.alien_responses {
        vs.push(v("C24:response-for-unknown-id", format!("id {}", r.id)));
    }
    for (id, rs) in &out.responses {
        let method = out.sent.get(id).map(|s| s.method.as_str()).unwrap_or("?");
        if rs.len() > 1 {
            vs.push(v(format!("C24:duplicate-response:{method}"), format!("id {id} got {} responses", rs.len())));
        }
        for (_, r) in rs {
            if r.result.is_some() == r.error.is_some() {
                vs.push(v(format!("C24:malformed-response:{method}"), format!("id {id}: result and error both set or both missing")));
            }
        }
    }
    if spec.swarm.bad_initialize {
        if !out.responses.contains_key(&out.init_id) {
            vs.push(v(
                "C24:no-response:initialize:bad-capabilities",
                format!("initialize with undeserializable capabilities got no response; server: {:?}; panics: {:?}", out.server_result, out.panics),
            ));
        }
        return vs;
    }
    let stalled_run = stalled(out);
    if stalled_run {
        vs.push(v(
            "C24:server-stopped-serving",
            format!("final probes unanswered; blocked tasks: {}", out.wait_graph.join("; ")),
        ));
        return vs;
    }
    let unanswered: Vec<(&i32, &crate::run::SentReq)> =
        out.sent.iter().filter(|(id, _)| !out.responses.contains_key(id)).collect();
    let unanswered_valid = unanswered.iter().filter(|(_, s)| s.kind == "valid" || s.kind == "probe").count();
    for (id, s) in unanswered {
        if Some(*id) == out.shutdown_id {
            vs.push(v("C24:no-response:shutdown", format!("id {id}")));
            continue;
        }
        // a panic location is attributed only when it is unambiguous: exactly one panic and
        // exactly one unanswered well-formed request in the run
        let class = match s.kind {
            "malformed" => "C24:no-response:malformed-params".to_string(),
            "unknown-method" => "C24:no-response:unknown-method".to_string(),
            "handshake" => format!("C24:no-response:handshake:{}", s.method),
            _ => {
                let panic = if out.panics.len() == 1 && unanswered_valid == 1 {
                    let loc = out.panics[0].split(": ").next().unwrap_or("?");
                    let loc = loc.rsplit("crates/").next().unwrap_or(loc);
                    let loc = loc.rsplit("registry/src/").next().unwrap_or(loc);
                    let loc = loc.split_once('/').map(|(a, b)| if a.contains('-') && a.len() > 30 { b } else { loc }).unwrap_or(loc);
                    format!(":panic@{loc}")
                } else if out.panics.is_empty() {
                    String::new()
                } else {
                    ":panic".to_string()
                };
                format!("C24:no-response:well-formed:{}{}", s.method, panic)
            }
        };
        vs.push(v(
            class,
            format!("id {id} ({} {}) sent at t={}ms never answered; panics: {:?}", s.kind, s.method, s.t_ms, out.panics),
        ));
    }
    vs
}

/// C28: bounded liveness after faults stop (O1) and the literal discipline clause "never
/// re-acquired while already held" (O2). Order-graph edges are evidence only.
pub fn c28(spec: &RunSpec, out: &Outcome) -> Vec<Violation> {
    let mut vs = Vec::new();
    if spec.swarm.bad_initialize {
        return vs;
    }
    if stalled(out) {
        let class = if out.stall_class.is_empty() { "no-blocked-lock-waiter".to_string() } else { out.stall_class.clone() };
        vs.push(v(
            format!("C28:stall:{class}"),
            format!("probes unanswered after 300 simulated seconds; wait-for graph: {}", out.wait_graph.join("; ")),
        ));
    }
    for r in &out.reacquire {
        vs.push(v(format!("C28:reacquire:{r}"), "a task waited for a lock it already holds".to_string()));
    }
    // O3 (literal clause "acquired in a single global order per lock"): the nested acquisitions
    // observed in this run - "waited for B while holding A", whatever the modes and whichever
    // tasks - must form an acyclic order over the locks. A cycle is the precondition of a
    // deadlock whether or not this schedule happened to close it.
    if let Some(cycle) = lock_order_cycle(&out.order_edges) {
        vs.push(v(
            format!("C28:lock-order-cycle:{}", cycle.join("->")),
            format!("nested acquisitions observed in one run order these locks in a cycle; edges: {:?}", out.order_edges),
        ));
    }
    vs
}

/// Shortest cycle in the lock-order graph of a run (locks by type name, modes dropped), in a
/// canonical rotation (starting at the lexicographically smallest lock), closed by repeating the
/// first lock.
pub fn lock_order_cycle(edges: &[(String, String)]) -> Option<Vec<String>> {
    use std::collections::{BTreeMap, BTreeSet, VecDeque};
    let strip = |s: &String| s.rsplit_once('.').map(|(a, _)| a.to_string()).unwrap_or_else(|| s.clone());
    let mut g: BTreeMap<String, BTreeSet<String>> = BTreeMap::new();
    for (a, b) in edges {
        let (a, b) = (strip(a), strip(b));
        if a != b {
            g.entry(a).or_default().insert(b);
        }
    }
    let mut best: Option<Vec<String>> = None;
    for start in g.keys() {
        // BFS from `start` back to `start`
        let mut prev: BTreeMap<String, String> = BTreeMap::new();
        let mut q = VecDeque::new();
        q.push_back(start.clone());
        let mut found = false;
        while let Some(n) = q.pop_front() {
            for m in g.get(&n).into_iter().flatten() {
                if m == start {
                    prev.insert("<close>".into(), n.clone());
                    found = true;
                    break;
                }
                if !prev.contains_key(m) && m != start {
                    prev.insert(m.clone(), n.clone());
                    q.push_back(m.clone());
                }
            }
            if found {
                break;
            }
        }
        if found {
            let mut path = vec![prev["<close>"].clone()];
            while path.last().unwrap() != start {
                let p = prev[path.last().unwrap()].clone();
                path.push(p);
            }
            path.reverse();
            // canonical rotation
            let k = path.iter().enumerate().min_by_key(|(_, s)| (*s).clone()).map(|(i, _)| i).unwrap_or(0);
            path.rotate_left(k);
            path.push(path[0].clone());
            if best.as_ref().map(|b| path.len() < b.len()).unwrap_or(true) {
                best = Some(path);
            }
        }
    }
    best
}

pub fn judge(spec: &RunSpec, out: &Outcome) -> Vec<Violation> {
    let mut vs = match spec.prop.as_str() {
        "C27" => content_oracle("C27", spec, out),
        "C29" => {
            // the property speaks about a reload / reindex running concurrently: only scripts
            // that contain a reload trigger are in its domain
            let has_trigger = spec.script.iter().any(|s| {
                matches!(
                    s.action,
                    crate::script::Action::ChangeConfig { .. }
                        | crate::script::Action::EmmyrcWrite { .. }
                        | crate::script::Action::Save { .. }
                )
            });
            if has_trigger { content_oracle("C29", spec, out) } else { Vec::new() }
        }
        "C24" => c24(spec, out),
        "C28" => c28(spec, out),
        "C30" => crate::c30::judge(spec, out),
        _ => Vec::new(),
    };
    if out.server_result.as_deref().map(|s| s.starts_with("harness")).unwrap_or(false) {
        vs.push(v("HARNESS:client-task-failed", out.server_result.clone().unwrap_or_default()));
    }
    // dedup by class, keep first detail
    let mut seen = std::collections::BTreeSet::new();
    vs.retain(|x| seen.insert(x.class.clone()));
    vs
}
