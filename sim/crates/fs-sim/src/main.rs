//! E-FS: crash-point and write-fault enumeration for `luafmt --write` (C39).
//! The real binary runs as a process with every mutating file-system call behind the
//! LD_PRELOAD shim /verif/fsfault/libfsfault.so; for each seeded workload every (call point,
//! fault kind) pair is executed from a restored copy of the workspace.

use std::collections::BTreeMap;
use std::path::{Path, PathBuf};
use std::process::Command;

use serde::{Deserialize, Serialize};
use serde_json::{Map, Value, json};
use simcore::Rng;
use simcore::driver::{CaseReport, Engine};

#[derive(Serialize, Deserialize, Clone, Debug)]
struct FileSpec {
    rel: String,
    kind: String,
    n: u32,
}

#[derive(Serialize, Deserialize, Clone, Debug)]
struct FsSpec {
    seed: u64,
    files: Vec<FileSpec>,
    /// index of a file that is additionally reachable through a symlink passed on the command line
    symlink: Option<usize>,
    editorconfig: bool,
    /// pass the directory instead of the individual files
    pass_dir: bool,
    /// index of a file that has a second hard link (`hl_<i>.bak`, not a formatting target): a
    /// tool that special-cases `nlink > 1` takes another write path for it
    #[serde(default)]
    hardlink: Option<usize>,
    /// index of a file that is named twice on the command line
    #[serde(default)]
    dup_arg: Option<usize>,
}

fn file_text(kind: &str, n: u32) -> String {
    match kind {
        "unformatted" => format!("local   a{n}=1\nfunction  f{n}( x,y )\nreturn x+y\nend\nlocal t{n}={{1,2,\n3}}\n"),
        "formatted" => format!("local a{n} = 1\n"),
        "syntax_error" => format!("local function (\nlocal ok{n}=1\n"),
        "empty" => String::new(),
        "large" => {
            let mut s = String::new();
            for i in 0..2500 {
                s.push_str(&format!("local   v{n}_{i}=  {i}+{n}\n"));
            }
            s
        }
        "comment_only" => format!("--   comment {n}\n\n\n--[[ block ]]\n"),
        _ => format!("return   {n}\n"),
    }
}

fn luafmt_path() -> PathBuf {
    std::env::var("VERIF_LUAFMT").map(PathBuf::from).unwrap_or_else(|_| PathBuf::from("/verif/target/repo/release/luafmt"))
}

fn shim_path() -> PathBuf {
    std::env::var("VERIF_FSFAULT").map(PathBuf::from).unwrap_or_else(|_| PathBuf::from("/verif/fsfault/libfsfault.so"))
}

struct RunOut {
    exit: Option<i32>,
    killed: bool,
    log: Vec<String>,
}

fn run_luafmt(ws: &Path, args: &[String], plan: Option<&str>) -> RunOut {
    let log_path = ws.parent().unwrap().join("fsfault.log");
    let _ = std::fs::remove_file(&log_path);
    let mut c = Command::new(luafmt_path());
    c.arg("--write").args(args).current_dir(ws);
    c.env("LD_PRELOAD", shim_path()).env("FSFAULT_ROOT", ws).env("FSFAULT_LOG", &log_path);
    match plan {
        Some(p) => {
            c.env("FSFAULT_PLAN", p);
        }
        None => {
            c.env_remove("FSFAULT_PLAN");
        }
    }
    c.stdout(std::process::Stdio::null()).stderr(std::process::Stdio::null()).stdin(std::process::Stdio::null());
    let st = c.status();
    let log = std::fs::read_to_string(&log_path).unwrap_or_default().lines().map(|s| s.to_string()).collect();
    match st {
        Ok(s) => {
            use std::os::unix::process::ExitStatusExt;
            RunOut { exit: s.code(), killed: s.signal().is_some(), log }
        }
        Err(_) => RunOut { exit: None, killed: false, log },
    }
}

fn restore(ws: &Path, spec: &FsSpec) {
    let _ = std::fs::remove_dir_all(ws);
    std::fs::create_dir_all(ws).expect("mkdir ws");
    for f in &spec.files {
        let p = ws.join(&f.rel);
        if let Some(parent) = p.parent() {
            let _ = std::fs::create_dir_all(parent);
        }
        std::fs::write(&p, file_text(&f.kind, f.n)).expect("write ws file");
    }
    if spec.editorconfig {
        std::fs::write(ws.join(".editorconfig"), "root = true\n[*.lua]\nindent_style = space\nindent_size = 2\n").expect("editorconfig");
    }
    if let Some(i) = spec.symlink {
        let _ = std::os::unix::fs::symlink(ws.join(&spec.files[i].rel), ws.join("zz_link.lua"));
    }
    if let Some(i) = spec.hardlink {
        if i < spec.files.len() {
            let _ = std::fs::hard_link(ws.join(&spec.files[i].rel), ws.join(format!("hl_{i}.bak")));
        }
    }
}

fn cmd_args(spec: &FsSpec) -> Vec<String> {
    if spec.pass_dir {
        return vec![".".to_string()];
    }
    let mut v: Vec<String> = spec.files.iter().map(|f| f.rel.clone()).collect();
    if spec.symlink.is_some() {
        v.push("zz_link.lua".into());
    }
    if let Some(i) = spec.dup_arg {
        if i < spec.files.len() {
            v.push(spec.files[i].rel.clone());
        }
    }
    v
}

struct Point {
    idx: usize,
    call: String,
    len: Option<usize>,
}

fn parse_points(log: &[String]) -> Vec<Point> {
    let mut v = Vec::new();
    for l in log {
        let mut it = l.split(' ');
        let Some(first) = it.next() else { continue };
        let Ok(idx) = first.parse::<usize>() else { continue };
        let call = it.next().unwrap_or("").to_string();
        let len = l.split("len=").nth(1).and_then(|x| x.trim().parse::<usize>().ok());
        v.push(Point { idx, call, len });
    }
    v
}

fn gen_spec(seed: u64) -> FsSpec {
    let mut r = Rng::stream(seed, "workload");
    let n = r.range(1, 5) as usize;
    let mut files = Vec::new();
    for i in 0..n {
        let kind = *r.pick(&["unformatted", "unformatted", "unformatted", "formatted", "syntax_error", "empty", "large", "comment_only"]);
        let rel = match r.below(3) {
            0 => format!("f{i}.lua"),
            1 => format!("src/f{i}.lua"),
            _ => format!("src/deep/f{i}.lua"),
        };
        files.push(FileSpec { rel, kind: kind.to_string(), n: i as u32 });
    }
    let symlink = if r.chance(1, 6) { Some(r.usize_below(n)) } else { None };
    let editorconfig = r.chance(1, 3);
    let pass_dir = r.chance(1, 3);
    let hardlink = if r.chance(1, 4) { Some(r.usize_below(n)) } else { None };
    let dup_arg = if r.chance(1, 8) { Some(r.usize_below(n)) } else { None };
    FsSpec { seed, files, symlink, editorconfig, pass_dir, hardlink, dup_arg }
}

fn run_case(spec: &FsSpec, verbose: bool) -> CaseReport {
    let dir = simcore::scratch::RunDir::acquire("fs", spec.seed);
    let ws = dir.0.join("ws");
    let args = cmd_args(spec);
    let originals: Vec<Vec<u8>> = spec.files.iter().map(|f| file_text(&f.kind, f.n).into_bytes()).collect();
    // ---- golden (fault-free) run under the shim: call trace and expected results
    restore(&ws, spec);
    let golden = run_luafmt(&ws, &args, None);
    let expected: Vec<Vec<u8>> = spec.files.iter().map(|f| std::fs::read(ws.join(&f.rel)).unwrap_or_default()).collect();
    let points = parse_points(&golden.log);
    let mut counters: BTreeMap<String, u64> = BTreeMap::new();
    let mut violations: Vec<(String, String)> = Vec::new();
    let mut runs = 0u64;
    if golden.exit.is_none() || golden.killed {
        return CaseReport { error: Some(format!("golden run did not exit normally: {:?}", golden.exit)), ..Default::default() };
    }
    *counters.entry("golden.call_points".into()).or_insert(0) += points.len() as u64;
    if spec.hardlink.is_some() {
        *counters.entry("workload.hard_linked_target".into()).or_insert(0) += 1;
    }
    if spec.dup_arg.is_some() {
        *counters.entry("workload.file_named_twice".into()).or_insert(0) += 1;
    }
    let changed_files = originals.iter().zip(&expected).filter(|(a, b)| a != b).count();
    *counters.entry("golden.files_rewritten".into()).or_insert(0) += changed_files as u64;

    // ---- fault plans: every point x every applicable kind, plus sticky disk-full budgets
    let mut plans: Vec<(String, String)> = Vec::new(); // (plan, label)
    for p in &points {
        plans.push((format!("{}:kill_before", p.idx), format!("kill-before@{}", p.call)));
        plans.push((format!("{}:kill_after", p.idx), format!("kill-after@{}", p.call)));
        let errnos: &[(i32, &str)] = match p.call.as_str() {
            "open" | "openat" | "creat" => &[(28, "ENOSPC"), (13, "EACCES"), (5, "EIO"), (24, "EMFILE"), (30, "EROFS")],
            "write" | "pwrite" | "writev" => &[(28, "ENOSPC"), (27, "EFBIG"), (5, "EIO"), (4, "EINTR"), (122, "EDQUOT")],
            "close" => &[(5, "EIO"), (28, "ENOSPC"), (4, "EINTR")],
            "fsync" | "fdatasync" => &[(5, "EIO"), (28, "ENOSPC")],
            "rename" | "renameat" | "renameat2" => &[(18, "EXDEV"), (13, "EACCES"), (28, "ENOSPC"), (5, "EIO")],
            _ => &[(5, "EIO"), (13, "EACCES")],
        };
        for (e, name) in errnos {
            plans.push((format!("{}:errno:{e}", p.idx), format!("{name}@{}", p.call)));
        }
        if let Some(len) = p.len {
            if len > 1 {
                plans.push((format!("{}:short:{}", p.idx, len / 2), format!("short-write@{}", p.call)));
                plans.push((format!("{}:short:1", p.idx), format!("short-write-1-byte@{}", p.call)));
                plans.push((format!("{}:torn:{}", p.idx, len / 2), format!("torn-write@{}", p.call)));
            }
            plans.push((format!("{}:short:0", p.idx), format!("zero-byte-write@{}", p.call)));
        }
    }
    let total_bytes: usize = points.iter().filter_map(|p| p.len).sum();
    let mut budgets: Vec<usize> = vec![0, 1, total_bytes / 2, total_bytes.saturating_sub(1)];
    let mut acc = 0usize;
    for p in &points {
        if let Some(l) = p.len {
            acc += l;
            budgets.push(acc); // exactly full after this write
            budgets.push(acc + 1);
        }
    }
    budgets.sort();
    budgets.dedup();
    for b in budgets {
        if b < total_bytes {
            plans.push((format!("budget:{b}"), "disk-full-sticky".to_string()));
        }
    }

    let mut digest = simcore::Digest::new();
    // the digest covers the shape of the golden trace (call names and lengths; file names may
    // contain the pid of the run) and the exit status under every plan
    for p in &points {
        digest.u64(p.idx as u64);
        digest.str(&p.call);
        digest.u64(p.len.unwrap_or(0) as u64);
    }
    for (plan, label) in &plans {
        restore(&ws, spec);
        let out = run_luafmt(&ws, &args, Some(plan));
        runs += 1;
        let fired = out.killed || out.log.iter().any(|l| l.contains("injected") || l.contains("disk full") || l == "DIE") || plan.contains(":short:") || plan.contains(":torn:");
        let kind = label.split('@').next().unwrap_or(label).to_string();
        if fired {
            *counters.entry(format!("fault.{kind}")).or_insert(0) += 1;
        }
        digest.str(plan);
        digest.u64(out.exit.unwrap_or(-1) as u64);
        let mut some_not_written = false;
        for (i, f) in spec.files.iter().enumerate() {
            let p = ws.join(&f.rel);
            let state = match std::fs::read(&p) {
                Err(_) => Some("missing"),
                Ok(b) if b == originals[i] || b == expected[i] => {
                    if b != expected[i] {
                        some_not_written = true;
                    }
                    None
                }
                Ok(b) if b.is_empty() => Some("truncated-to-empty"),
                Ok(b) if expected[i].starts_with(&b) => Some("partial-formatted-prefix"),
                Ok(b) if originals[i].starts_with(&b) => Some("partial-original-prefix"),
                Ok(_) => Some("other-content"),
            };
            if let Some(state) = state {
                some_not_written = true;
                violations.push((
                    format!("C39:{state}:{label}"),
                    format!(
                        "file {} ({}, {} bytes original, {} formatted) after plan '{plan}': {state}; exit={:?} killed={}",
                        f.rel,
                        f.kind,
                        originals[i].len(),
                        expected[i].len(),
                        out.exit,
                        out.killed
                    ),
                ));
            }
        }
        // the other name of a hard-linked target holds a complete text as well
        if let Some(i) = spec.hardlink.filter(|i| *i < spec.files.len()) {
            let state = match std::fs::read(ws.join(format!("hl_{i}.bak"))) {
                Err(_) => Some("missing"),
                Ok(b) if b == originals[i] || b == expected[i] => None,
                Ok(b) if b.is_empty() => Some("truncated-to-empty"),
                Ok(b) if expected[i].starts_with(&b) => Some("partial-formatted-prefix"),
                Ok(b) if originals[i].starts_with(&b) => Some("partial-original-prefix"),
                Ok(_) => Some("other-content"),
            };
            if let Some(state) = state {
                violations.push((format!("C39:{state}:hard-link-peer:{label}"), format!("second hard link of {} after plan '{plan}': {state}", spec.files[i].rel)));
            }
        }
        // a run in which some file could not be written must not report success
        if !out.killed && some_not_written && out.exit == Some(0) && fired {
            violations.push((
                format!("C39:exit-zero-after-write-failure:{label}"),
                format!("plan '{plan}': a target file was not rewritten but luafmt exited 0"),
            ));
        }
        // stray temporary files are allowed but counted
        if let Ok(rd) = std::fs::read_dir(&ws) {
            for e in rd.flatten() {
                let name = e.file_name().to_string_lossy().to_string();
                if name.contains(".tmp") || name.starts_with(".luafmt") {
                    *counters.entry("probe.stray_temp_file_left".into()).or_insert(0) += 1;
                }
            }
        }
    }
    *counters.entry("fault_runs".into()).or_insert(0) += runs;
    let mut seen = std::collections::BTreeSet::new();
    violations.retain(|x| seen.insert(x.0.clone()));
    if verbose {
        println!("spec: {}", serde_json::to_string_pretty(spec).unwrap_or_default());
        println!("golden trace:");
        for l in &golden.log {
            println!("  {l}");
        }
        println!("{} fault plans", plans.len());
    }
    CaseReport {
        violations,
        digest: digest.hex(),
        nontrivial: changed_files > 0 && !points.is_empty(),
        final_state: digest.hex(),
        counters,
        sample: json!({"files": spec.files, "symlink": spec.symlink, "hardlink": spec.hardlink, "dup_arg": spec.dup_arg, "pass_dir": spec.pass_dir, "golden_call_points": points.len(), "fault_plans": plans.len(), "golden_trace": golden.log.iter().take(12).collect::<Vec<_>>()}),
        error: None,
    }
}

struct Fs;

impl Engine for Fs {
    fn engine_name(&self) -> &'static str {
        "E-FS"
    }
    fn level(&self) -> &'static str {
        "fault_enumeration"
    }
    fn generate(&self, _prop: &str, seed: u64) -> Value {
        serde_json::to_value(gen_spec(seed)).unwrap()
    }
    fn run(&self, _prop: &str, spec: &Value, verbose: bool) -> CaseReport {
        match serde_json::from_value::<FsSpec>(spec.clone()) {
            Ok(s) => run_case(&s, verbose),
            Err(e) => CaseReport { error: Some(format!("bad spec: {e}")), ..Default::default() },
        }
    }
    fn shrink(&self, _prop: &str, spec: &Value) -> Vec<Value> {
        let Ok(s) = serde_json::from_value::<FsSpec>(spec.clone()) else { return vec![] };
        let mut out = Vec::new();
        if s.files.len() > 1 {
            for i in 0..s.files.len() {
                let mut c = s.clone();
                c.files.remove(i);
                c.symlink = None;
                let remap = |x: Option<usize>| x.and_then(|h| if h == i { None } else if h > i { Some(h - 1) } else { Some(h) });
                c.hardlink = remap(s.hardlink);
                c.dup_arg = remap(s.dup_arg);
                out.push(c);
            }
        }
        if s.dup_arg.is_some() {
            let mut c = s.clone();
            c.dup_arg = None;
            out.push(c);
        }
        if s.symlink.is_some() || s.editorconfig || s.pass_dir {
            let mut c = s.clone();
            c.symlink = None;
            c.editorconfig = false;
            c.pass_dir = false;
            out.push(c);
        }
        for i in 0..s.files.len() {
            if s.files[i].kind == "large" {
                let mut c = s.clone();
                c.files[i].kind = "unformatted".into();
                out.push(c);
            }
        }
        out.into_iter().filter_map(|c| serde_json::to_value(c).ok()).collect()
    }
    fn default_runs(&self, _prop: &str, tier: &str) -> u64 {
        if tier == "thorough" { 1500 } else { 24 }
    }
    fn rule(&self, _prop: &str) -> String {
        "one evaluation = one seeded workspace (1-5 Lua files: unformatted / already formatted / syntax error / empty / large / comment-only, optionally a symlinked file, an .editorconfig, files or directory on the command line); the real luafmt --write binary is run once fault-free under the shim to learn the call trace, then once per (call point x fault kind) and per sticky disk-full budget from a restored workspace: ALL points of the workload are enumerated; non-trivial = the golden run rewrites at least one file; distinct = distinct digests of (golden trace, plan, exit status)".into()
    }
    fn assumptions(&self, _prop: &str) -> Vec<String> {
        vec![
            "durability model = process kill and failing system calls (what survives is what the kernel holds), not power loss".into(),
            "faults are injected at libc call boundaries (open/write/close/fsync/rename/unlink/truncate/chmod/link); io_uring or raw syscalls would bypass the shim (luafmt uses std::fs)".into(),
            "a stray temporary file next to a target is tolerated and counted".into(),
        ]
    }
    fn extra_coverage(&self, _prop: &str) -> Map<String, Value> {
        let mut m = Map::new();
        m.insert("exhaustive".into(), json!(false));
        m.insert("exhaustive_note".into(), json!("per workload every (call point, fault kind) pair is enumerated; workloads are sampled"));
        m.insert("real_components".into(), json!(["luafmt binary built from the current tree", "kernel file system (tmpfs scratch directory)"]));
        m.insert("stubbed_components".into(), json!(["none (faults are injected by interposing libc calls)"]));
        m
    }
}

fn main() {
    std::process::exit(simcore::driver::main_dispatch(&Fs));
}
