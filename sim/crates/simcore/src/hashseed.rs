//! Hash-seed seam (S4). std's `RandomState` takes its SipHash keys from `getrandom(2)` through a
//! weak symbol; the harness binaries define that symbol (see `define_getrandom!`) and fill the
//! buffer from the current thread's hash seed. hashbrown's foldhash is a vendored copy whose
//! per-hasher seed is a function of the same integer.

use std::cell::Cell;

thread_local! {
    static SEED: Cell<u64> = const { Cell::new(0x0dd5_eed0_0dd5_eed0) };
    static CALLS: Cell<u64> = const { Cell::new(0) };
}

/// Make every hash map created on this thread from now on a pure function of `seed`.
/// (std caches its keys per thread at first use, so call this first thing on a fresh thread.)
pub fn set_thread_hash_seed(seed: u64) {
    SEED.with(|s| s.set(seed));
    CALLS.with(|c| c.set(0));
    foldhash::verif_seam::set_seed(seed ^ 0xf01d_f01d_f01d_f01d);
}

pub fn thread_hash_seed() -> u64 {
    SEED.with(|s| s.get())
}

/// Number of `getrandom` calls served on this thread (evidence: the seam is live).
pub fn getrandom_calls() -> u64 {
    CALLS.with(|c| c.get())
}

/// Fill `buf` deterministically from (thread seed, call counter).
pub fn fill(buf: &mut [u8]) {
    let seed = SEED.try_with(|s| s.get()).unwrap_or(0x0dd5_eed0_0dd5_eed0);
    let call = CALLS
        .try_with(|c| {
            let v = c.get();
            c.set(v + 1);
            v
        })
        .unwrap_or(0);
    let mut x = seed ^ call.wrapping_mul(0x9e3779b97f4a7c15);
    for chunk in buf.chunks_mut(8) {
        let v = crate::rng::splitmix64(&mut x).to_le_bytes();
        chunk.copy_from_slice(&v[..chunk.len()]);
    }
}

/// Define the interposed `getrandom` symbol in a harness binary. The binary's build.rs must pass
/// `-Wl,--export-dynamic-symbol=getrandom` so the dynamic lookup std performs finds it.
#[macro_export]
macro_rules! define_getrandom {
    () => {
        #[unsafe(no_mangle)]
        pub unsafe extern "C" fn getrandom(
            buf: *mut u8,
            len: usize,
            _flags: u32,
        ) -> isize {
            if buf.is_null() {
                return -1;
            }
            let slice = unsafe { std::slice::from_raw_parts_mut(buf, len) };
            $crate::hashseed::fill(slice);
            len as isize
        }
    };
}

/// Self-test helper: iteration order of a std HashSet and a hashbrown-like probe under the
/// current thread's seed, as a string.
pub fn std_order_probe() -> String {
    let s: std::collections::HashSet<u32> = (0..24).collect();
    s.iter().map(|x| x.to_string()).collect::<Vec<_>>().join(",")
}
