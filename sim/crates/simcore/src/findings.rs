//! Known findings: `/verif/known-findings.json`, committed, never written at run time.
//! `findings`: genuine defects recorded (not repaired): a violation whose class matches is
//! printed as `KNOWN-FINDING:` and does not fail the check. `fixed`: repaired defects; they
//! suppress nothing.

use serde::Deserialize;

#[derive(Debug, Clone, Deserialize)]
pub struct Finding {
    pub property: String,
    /// exact violation class, or a prefix ending in '*'
    pub class: String,
    pub what: String,
}

#[derive(Debug, Clone, Deserialize)]
pub struct Fixed {
    pub property: String,
    pub commit: String,
    pub what: String,
}

#[derive(Debug, Clone, Deserialize, Default)]
pub struct KnownFindings {
    #[serde(default)]
    pub findings: Vec<Finding>,
    #[serde(default)]
    pub fixed: Vec<Fixed>,
}

impl KnownFindings {
    pub fn load() -> Self {
        let path = std::env::var("VERIF_KNOWN_FINDINGS")
            .unwrap_or_else(|_| "/verif/known-findings.json".to_string());
        match std::fs::read_to_string(&path) {
            Ok(s) => serde_json::from_str(&s).unwrap_or_else(|e| {
                eprintln!("harness error: cannot parse {path}: {e}");
                std::process::exit(2);
            }),
            Err(_) => KnownFindings::default(),
        }
    }
    pub fn matches(&self, property: &str, class: &str) -> Option<&Finding> {
        self.findings.iter().find(|f| {
            f.property == property
                && (f.class == class
                    || (f.class.ends_with('*') && class.starts_with(&f.class[..f.class.len() - 1])))
        })
    }
}
