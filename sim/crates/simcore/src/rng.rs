//! xoshiro256** seeded through splitmix64; independent streams are derived by hashing the run
//! seed with a label so that shrinking one stream's consumer does not shift another.

#[derive(Clone, Debug)]
pub struct Rng {
    s: [u64; 4],
}

pub fn splitmix64(x: &mut u64) -> u64 {
    *x = x.wrapping_add(0x9e3779b97f4a7c15);
    let mut z = *x;
    z = (z ^ (z >> 30)).wrapping_mul(0xbf58476d1ce4e5b9);
    z = (z ^ (z >> 27)).wrapping_mul(0x94d049bb133111eb);
    z ^ (z >> 31)
}

/// Seed of run `index` of a batch started from `base`.
pub fn run_seed(base: u64, index: u64) -> u64 {
    let mut x = base ^ index.wrapping_mul(0xd1342543de82ef95).rotate_left(17);
    let a = splitmix64(&mut x);
    let mut y = a ^ index;
    splitmix64(&mut y)
}

/// Derive an independent stream seed from a run seed and a label.
pub fn derive(seed: u64, label: &str) -> u64 {
    let mut h: u64 = 0xcbf29ce484222325 ^ seed;
    for b in label.bytes() {
        h ^= b as u64;
        h = h.wrapping_mul(0x100000001b3);
    }
    let mut x = h ^ seed.rotate_left(32);
    splitmix64(&mut x)
}

impl Rng {
    pub fn new(seed: u64) -> Self {
        let mut x = seed;
        let s = [
            splitmix64(&mut x),
            splitmix64(&mut x),
            splitmix64(&mut x),
            splitmix64(&mut x),
        ];
        Rng { s }
    }
    pub fn stream(seed: u64, label: &str) -> Self {
        Rng::new(derive(seed, label))
    }
    pub fn next_u64(&mut self) -> u64 {
        let r = self.s[1].wrapping_mul(5).rotate_left(7).wrapping_mul(9);
        let t = self.s[1] << 17;
        self.s[2] ^= self.s[0];
        self.s[3] ^= self.s[1];
        self.s[1] ^= self.s[2];
        self.s[0] ^= self.s[3];
        self.s[2] ^= t;
        self.s[3] = self.s[3].rotate_left(45);
        r
    }
    /// uniform in 0..n (n > 0)
    pub fn below(&mut self, n: u64) -> u64 {
        if n <= 1 {
            return 0;
        }
        ((self.next_u64() as u128 * n as u128) >> 64) as u64
    }
    pub fn usize_below(&mut self, n: usize) -> usize {
        self.below(n as u64) as usize
    }
    /// inclusive range
    pub fn range(&mut self, lo: u64, hi: u64) -> u64 {
        lo + self.below(hi - lo + 1)
    }
    /// true with probability num/den
    pub fn chance(&mut self, num: u64, den: u64) -> bool {
        self.below(den) < num
    }
    pub fn pick<'a, T>(&mut self, xs: &'a [T]) -> &'a T {
        &xs[self.usize_below(xs.len())]
    }
    pub fn weighted(&mut self, weights: &[u32]) -> usize {
        let total: u64 = weights.iter().map(|w| *w as u64).sum();
        if total == 0 {
            return 0;
        }
        let mut r = self.below(total);
        for (i, w) in weights.iter().enumerate() {
            if r < *w as u64 {
                return i;
            }
            r -= *w as u64;
        }
        weights.len() - 1
    }
    pub fn shuffle<T>(&mut self, xs: &mut [T]) {
        for i in (1..xs.len()).rev() {
            let j = self.usize_below(i + 1);
            xs.swap(i, j);
        }
    }
}
