//! Delta debugging over a list: find a small sub-list for which `fails` still returns true.

/// `fails(candidate)` must be deterministic. Returns the minimised list. `budget` bounds the
/// number of candidate evaluations.
pub fn ddmin<T: Clone>(input: &[T], mut fails: impl FnMut(&[T]) -> bool, budget: usize) -> Vec<T> {
    let mut cur: Vec<T> = input.to_vec();
    let mut n = 2usize;
    let mut evals = 0usize;
    while cur.len() >= 2 && evals < budget {
        let chunk = cur.len().div_ceil(n);
        let mut reduced = false;
        // try removing each chunk (complement test)
        let mut i = 0;
        while i < cur.len() && evals < budget {
            let end = (i + chunk).min(cur.len());
            let mut cand = Vec::with_capacity(cur.len() - (end - i));
            cand.extend_from_slice(&cur[..i]);
            cand.extend_from_slice(&cur[end..]);
            evals += 1;
            if !cand.is_empty() && fails(&cand) {
                cur = cand;
                n = (n - 1).max(2);
                reduced = true;
                break;
            }
            i = end;
        }
        if !reduced {
            if n >= cur.len() {
                break;
            }
            n = (n * 2).min(cur.len());
        }
    }
    // final single-element removal pass
    let mut i = 0;
    while i < cur.len() && cur.len() > 1 && evals < budget {
        let mut cand = cur.clone();
        cand.remove(i);
        evals += 1;
        if fails(&cand) {
            cur = cand;
        } else {
            i += 1;
        }
    }
    cur
}
