//! Shared machinery for the deterministic-simulation checks: one-integer PRNG streams, the
//! hash-seed seam, fresh-thread execution, worker-process fan-out, replay / evidence / known
//! findings plumbing. No real clock or PRNG draw happens in logging paths.

pub mod ddmin;
pub mod driver;
pub mod evidence;
pub mod findings;
pub mod hashseed;
pub mod isolate;
pub mod rng;
pub mod scratch;
pub mod workers;

pub use rng::Rng;

/// Default VERIF_SEED: fixed so the unchanged tree gives the same verdict on every invocation.
pub const DEFAULT_SEED: u64 = 20260921;

pub fn verif_seed() -> u64 {
    std::env::var("VERIF_SEED")
        .ok()
        .and_then(|s| s.trim().parse::<u64>().ok())
        .unwrap_or(DEFAULT_SEED)
}

/// Run `f` on a fresh OS thread whose std `RandomState` keys and foldhash per-hasher seeds are a
/// pure function of `hash_seed`. Panics in `f` are returned as `Err(message)`.
pub fn on_fresh_thread<R: Send + 'static>(
    hash_seed: u64,
    stack_mb: usize,
    f: impl FnOnce() -> R + Send + 'static,
) -> Result<R, String> {
    let h = std::thread::Builder::new()
        .name("simrun".into())
        .stack_size(stack_mb << 20)
        .spawn(move || {
            hashseed::set_thread_hash_seed(hash_seed);
            f()
        })
        .expect("spawn run thread");
    match h.join() {
        Ok(r) => Ok(r),
        Err(e) => Err(panic_message(&e)),
    }
}

/// Like `on_fresh_thread`, but first shifts the heap layout of the run thread by a seeded series
/// of leaked allocations (`heap_salt` = 0: none). With ASLR off (see `ensure_no_aslr`) this makes
/// "results depend on memory addresses" (pointer-keyed ordering) a deterministic, replayable
/// dimension of a sweep instead of an uncontrolled source of noise.
pub fn on_fresh_thread_salted<R: Send + 'static>(
    hash_seed: u64,
    heap_salt: u64,
    stack_mb: usize,
    f: impl FnOnce() -> R + Send + 'static,
) -> Result<R, String> {
    on_fresh_thread(hash_seed, stack_mb, move || {
        // the salt allocations live for the duration of the run (they shift every later
        // allocation) and are released afterwards: a worker process that executes tens of
        // thousands of salted runs must not accumulate them (a thorough C32 batch was OOM-killed
        // at 4 GB per worker when they were leaked for good)
        let mut salt_blocks: Vec<Vec<u8>> = Vec::new();
        if heap_salt != 0 {
            let mut r = Rng::new(heap_salt);
            let n = r.range(8, 64);
            for _ in 0..n {
                let size = r.range(16, 4096) as usize;
                salt_blocks.push(Vec::with_capacity(size));
            }
        }
        let out = f();
        drop(salt_blocks);
        out
    })
}

/// Re-execute the current process with address-space layout randomisation switched off (once).
/// Memory addresses are then a function of the allocation history only, which the simulator
/// controls; without this, code that orders things by pointer value differs between two
/// otherwise identical processes and replay files could not be exact.
pub fn ensure_no_aslr() {
    const ADDR_NO_RANDOMIZE: libc::c_ulong = 0x0040000;
    if std::env::var_os("VERIF_ASLR_KEEP").is_some() {
        return;
    }
    unsafe {
        let cur = libc::personality(0xffff_ffff);
        if cur < 0 || (cur as libc::c_ulong & ADDR_NO_RANDOMIZE) != 0 {
            return;
        }
        if libc::personality(cur as libc::c_ulong | ADDR_NO_RANDOMIZE) < 0 {
            return;
        }
    }
    if std::env::var_os("VERIF_NO_ASLR_REEXEC").is_some() {
        return; // already tried once; do not loop
    }
    use std::os::unix::process::CommandExt;
    let exe = match std::env::current_exe() {
        Ok(e) => e,
        Err(_) => return,
    };
    let err = std::process::Command::new(exe).args(std::env::args_os().skip(1)).env("VERIF_NO_ASLR_REEXEC", "1").exec();
    eprintln!("harness: re-exec without ASLR failed: {err}");
}

pub fn panic_message(e: &Box<dyn std::any::Any + Send>) -> String {
    if let Some(s) = e.downcast_ref::<&str>() {
        s.to_string()
    } else if let Some(s) = e.downcast_ref::<String>() {
        s.clone()
    } else {
        "<non-string panic>".to_string()
    }
}

/// FNV-1a 64 over bytes: a stable digest that does not depend on any hash seed.
#[derive(Clone, Copy)]
pub struct Digest(pub u64);

impl Default for Digest {
    fn default() -> Self {
        Digest(0xcbf29ce484222325)
    }
}

impl Digest {
    pub fn new() -> Self {
        Self::default()
    }
    pub fn bytes(&mut self, b: &[u8]) {
        for &x in b {
            self.0 ^= x as u64;
            self.0 = self.0.wrapping_mul(0x100000001b3);
        }
    }
    pub fn str(&mut self, s: &str) {
        self.bytes(s.as_bytes());
        self.bytes(&[0xff]);
    }
    pub fn u64(&mut self, v: u64) {
        self.bytes(&v.to_le_bytes());
    }
    pub fn hex(&self) -> String {
        format!("{:016x}", self.0)
    }
}

pub fn digest_str(s: &str) -> String {
    let mut d = Digest::new();
    d.str(s);
    d.hex()
}

/// Install a panic hook that records panic locations into a thread-local list instead of
/// printing (the server's handler tasks panic inside tokio, which swallows the payload; the
/// oracles want the location for the violation class).
pub mod panics {
    use std::cell::RefCell;
    use std::sync::Once;
    thread_local! {
        static PANICS: RefCell<Vec<String>> = const { RefCell::new(Vec::new()) };
    }
    static ONCE: Once = Once::new();
    pub fn install_quiet_hook() {
        ONCE.call_once(|| {
            std::panic::set_hook(Box::new(|info| {
                let loc = info
                    .location()
                    .map(|l| format!("{}:{}", l.file(), l.line()))
                    .unwrap_or_else(|| "?".into());
                let msg = if let Some(s) = info.payload().downcast_ref::<&str>() {
                    s.to_string()
                } else if let Some(s) = info.payload().downcast_ref::<String>() {
                    s.clone()
                } else {
                    String::new()
                };
                let mut short: String = msg.chars().take(160).collect();
                short = short.replace('\n', " ");
                let _ = PANICS.try_with(|p| {
                    if let Ok(mut p) = p.try_borrow_mut() {
                        p.push(format!("{loc}: {short}"));
                    }
                });
                if std::env::var_os("VERIF_SHOW_PANICS").is_some() {
                    eprintln!("[panic] {loc}: {short}");
                }
            }));
        });
    }
    pub fn take() -> Vec<String> {
        PANICS.with(|p| std::mem::take(&mut *p.borrow_mut()))
    }
}
