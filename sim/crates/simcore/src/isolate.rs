//! Run one simulation in a forked child so that every run starts from the same process state
//! (lazily initialised statics, per-thread hash-key counters, allocator state, task-id
//! counters), whatever ran before it and however many workers there are. A replay in a fresh
//! process forks from the same warmed-up state, so it reproduces the run exactly. A crash
//! (abort, stack overflow, kill) of the code under test is contained and reported.

use std::io::Write;

#[derive(Debug)]
pub enum ChildError {
    /// child terminated by signal / non-zero exit before delivering a result
    Died(String),
    /// wall-clock limit exceeded (the child was killed)
    Timeout,
    Harness(String),
}

impl std::fmt::Display for ChildError {
    fn fmt(&self, f: &mut std::fmt::Formatter<'_>) -> std::fmt::Result {
        match self {
            ChildError::Died(s) => write!(f, "child died: {s}"),
            ChildError::Timeout => write!(f, "child exceeded the wall-clock limit and was killed"),
            ChildError::Harness(s) => write!(f, "harness: {s}"),
        }
    }
}

/// Fork; run `f` in the child; return the string it produced. The calling process must be
/// single-threaded at this point (workers are processes; run threads are joined).
pub fn run_in_child(f: impl FnOnce() -> String, wall_limit_s: u64) -> Result<String, ChildError> {
    let _ = std::io::stdout().flush();
    let mut fds = [0i32; 2];
    if unsafe { libc::pipe(fds.as_mut_ptr()) } != 0 {
        return Err(ChildError::Harness("pipe failed".into()));
    }
    let pid = unsafe { libc::fork() };
    if pid < 0 {
        return Err(ChildError::Harness("fork failed".into()));
    }
    if pid == 0 {
        // child
        unsafe { libc::close(fds[0]) };
        let s = f();
        let _ = std::io::stdout().flush();
        let bytes = s.as_bytes();
        let mut off = 0usize;
        while off < bytes.len() {
            let n = unsafe { libc::write(fds[1], bytes[off..].as_ptr() as *const libc::c_void, bytes.len() - off) };
            if n <= 0 {
                break;
            }
            off += n as usize;
        }
        unsafe {
            libc::close(fds[1]);
            libc::_exit(0);
        }
    }
    // parent
    unsafe { libc::close(fds[1]) };
    let mut out: Vec<u8> = Vec::new();
    let mut buf = [0u8; 65536];
    let start = std::time::Instant::now();
    let mut timed_out = false;
    loop {
        let remaining_ms = (wall_limit_s as i64 * 1000) - start.elapsed().as_millis() as i64;
        if remaining_ms <= 0 {
            timed_out = true;
            break;
        }
        let mut pfd = libc::pollfd { fd: fds[0], events: libc::POLLIN, revents: 0 };
        let r = unsafe { libc::poll(&mut pfd, 1, remaining_ms.min(1000) as i32) };
        if r < 0 {
            let e = std::io::Error::last_os_error();
            if e.kind() == std::io::ErrorKind::Interrupted {
                continue;
            }
            break;
        }
        if r == 0 {
            continue;
        }
        let n = unsafe { libc::read(fds[0], buf.as_mut_ptr() as *mut libc::c_void, buf.len()) };
        if n < 0 {
            let e = std::io::Error::last_os_error();
            if e.kind() == std::io::ErrorKind::Interrupted {
                continue;
            }
            break;
        }
        if n == 0 {
            break;
        }
        out.extend_from_slice(&buf[..n as usize]);
    }
    unsafe { libc::close(fds[0]) };
    if timed_out {
        unsafe { libc::kill(pid, libc::SIGKILL) };
    }
    let mut status = 0i32;
    loop {
        let r = unsafe { libc::waitpid(pid, &mut status, 0) };
        if r == pid {
            break;
        }
        if r < 0 && std::io::Error::last_os_error().kind() != std::io::ErrorKind::Interrupted {
            break;
        }
    }
    if timed_out {
        return Err(ChildError::Timeout);
    }
    if libc::WIFSIGNALED(status) {
        return Err(ChildError::Died(format!("signal {}", libc::WTERMSIG(status))));
    }
    if libc::WIFEXITED(status) && libc::WEXITSTATUS(status) != 0 {
        return Err(ChildError::Died(format!("exit status {}", libc::WEXITSTATUS(status))));
    }
    String::from_utf8(out).map_err(|_| ChildError::Harness("child output not utf-8".into()))
}
