//! Generic batch driver for engines whose unit of work is "one seeded case": worker-process
//! fan-out, fast in-process execution with canonical (forked, isolated) confirmation, greedy
//! minimisation, replay files confirmed in a fresh process, known findings, evidence.

use std::collections::{BTreeMap, BTreeSet};
use std::time::Instant;

use serde::{Deserialize, Serialize};
use serde_json::{Map, Value, json};

use crate::findings::KnownFindings;

#[derive(Serialize, Deserialize, Clone, Debug, Default)]
pub struct CaseReport {
    pub violations: Vec<(String, String)>,
    /// digest of everything observable about the execution (for distinct counting and replay)
    pub digest: String,
    /// non-trivial by the engine's stated rule
    pub nontrivial: bool,
    pub final_state: String,
    pub counters: BTreeMap<String, u64>,
    pub sample: Value,
    pub error: Option<String>,
}

impl CaseReport {
    pub fn has(&self, class: &str) -> bool {
        self.violations.iter().any(|(c, _)| c == class)
    }
}

pub trait Engine {
    fn engine_name(&self) -> &'static str;
    fn level(&self) -> &'static str {
        "exploration"
    }
    /// Generate the case spec (JSON) of run `seed` for property `prop`.
    fn generate(&self, prop: &str, seed: u64) -> Value;
    /// Execute one case in this process (on a fresh seeded thread) and judge it.
    fn run(&self, prop: &str, spec: &Value, verbose: bool) -> CaseReport;
    /// Smaller variants of `spec` to try, most aggressive first.
    fn shrink(&self, _prop: &str, _spec: &Value) -> Vec<Value> {
        Vec::new()
    }
    fn default_runs(&self, prop: &str, tier: &str) -> u64;
    fn rule(&self, prop: &str) -> String;
    fn assumptions(&self, prop: &str) -> Vec<String>;
    fn extra_coverage(&self, _prop: &str) -> Map<String, Value> {
        Map::new()
    }
    /// Deterministic process warm-up (lazily initialised statics) before any fork.
    fn warm_up(&self) {}
}

fn arg(args: &[String], name: &str) -> Option<String> {
    args.iter().position(|a| a == name).and_then(|i| args.get(i + 1).cloned())
}

pub fn run_fast<E: Engine>(e: &E, prop: &str, spec: &Value) -> CaseReport {
    e.run(prop, spec, false)
}

/// Canonical execution: forked child from the warmed-up parent.
pub fn run_isolated<E: Engine>(e: &E, prop: &str, spec: &Value, verbose: bool) -> CaseReport {
    let res = crate::isolate::run_in_child(
        || serde_json::to_string(&e.run(prop, spec, verbose)).unwrap_or_else(|x| format!("{{\"error\":\"{x}\"}}")),
        300,
    );
    match res {
        Ok(s) => serde_json::from_str(&s).unwrap_or_else(|x| CaseReport { error: Some(format!("bad child report: {x}")), ..Default::default() }),
        Err(crate::isolate::ChildError::Died(how)) => CaseReport {
            violations: vec![(format!("{prop}:process-died:{how}"), "the process executing the code under test died (abort / stack overflow / fatal signal)".into())],
            digest: format!("died:{how}"),
            ..Default::default()
        },
        Err(x) => CaseReport { error: Some(x.to_string()), ..Default::default() },
    }
}

#[derive(Default)]
struct Summary {
    runs: u64,
    nontrivial: u64,
    digests: BTreeSet<String>,
    final_states: BTreeSet<String>,
    counters: BTreeMap<String, u64>,
    violations: BTreeMap<String, (u64, Value)>,
    samples: Vec<Value>,
    harness_errors: Vec<String>,
    wall_budget_hit: bool,
}

impl Summary {
    fn to_json(&self) -> Value {
        json!({
            "runs": self.runs, "nontrivial": self.nontrivial, "digests": self.digests, "final_states": self.final_states,
            "counters": self.counters,
            "violations": self.violations.iter().map(|(k, (n, ex))| (k.clone(), json!({"count": n, "example": ex}))).collect::<Map<String, Value>>(),
            "samples": self.samples, "harness_errors": self.harness_errors, "wall_budget_hit": self.wall_budget_hit,
        })
    }
    fn merge(&mut self, v: &Value) {
        let u = |k: &str| v.get(k).and_then(|x| x.as_u64()).unwrap_or(0);
        self.runs += u("runs");
        self.nontrivial += u("nontrivial");
        self.wall_budget_hit |= v.get("wall_budget_hit").and_then(|b| b.as_bool()).unwrap_or(false);
        for (key, set) in [("digests", &mut self.digests), ("final_states", &mut self.final_states)] {
            if let Some(a) = v.get(key).and_then(|a| a.as_array()) {
                for s in a {
                    if let Some(s) = s.as_str() {
                        set.insert(s.to_string());
                    }
                }
            }
        }
        if let Some(m) = v.get("counters").and_then(|m| m.as_object()) {
            for (k, n) in m {
                *self.counters.entry(k.clone()).or_insert(0) += n.as_u64().unwrap_or(0);
            }
        }
        if let Some(m) = v.get("violations").and_then(|m| m.as_object()) {
            for (class, e) in m {
                let n = e.get("count").and_then(|c| c.as_u64()).unwrap_or(0);
                let ex = e.get("example").cloned().unwrap_or(Value::Null);
                let ent = self.violations.entry(class.clone()).or_insert((0, ex.clone()));
                ent.0 += n;
                let idx = |x: &Value| x.get("index").and_then(|i| i.as_u64()).unwrap_or(u64::MAX);
                if idx(&ex) < idx(&ent.1) {
                    ent.1 = ex;
                }
            }
        }
        if let Some(a) = v.get("samples").and_then(|a| a.as_array()) {
            for s in a {
                if self.samples.len() < 3 {
                    self.samples.push(s.clone());
                }
            }
        }
        if let Some(a) = v.get("harness_errors").and_then(|a| a.as_array()) {
            for s in a {
                self.harness_errors.push(s.as_str().unwrap_or("").to_string());
            }
        }
    }
}

fn worker<E: Engine>(e: &E, prop: &str, base: u64, runs: u64, k: u64, n: u64, wall_s: u64, isolated: bool) -> Summary {
    let t0 = Instant::now();
    let mut s = Summary::default();
    e.warm_up();
    let mut i = k;
    while i < runs {
        if wall_s > 0 && t0.elapsed().as_secs() >= wall_s {
            s.wall_budget_hit = true;
            break;
        }
        let seed = crate::rng::run_seed(base, i);
        let spec = e.generate(prop, seed);
        let mut r = if isolated { run_isolated(e, prop, &spec, false) } else { run_fast(e, prop, &spec) };
        if !isolated && r.violations.iter().any(|v| !s.violations.contains_key(&v.0)) {
            let fast: Vec<String> = r.violations.iter().map(|v| v.0.clone()).collect();
            let canon = run_isolated(e, prop, &spec, false);
            let lost = fast.iter().filter(|c| !canon.has(c)).count() as u64;
            if lost > 0 {
                *s.counters.entry("harness.fast_path_candidates_not_reproduced_in_isolation".into()).or_insert(0) += lost;
            }
            *s.counters.entry("harness.isolated_confirmations".into()).or_insert(0) += 1;
            let keep = r.counters.clone();
            r = canon;
            if r.error.is_none() {
                r.counters = keep;
            }
        }
        if let Some(err) = &r.error {
            s.harness_errors.push(format!("run {i} (seed {seed}): {err}"));
        } else {
            s.runs += 1;
            if r.nontrivial {
                s.nontrivial += 1;
                s.digests.insert(r.digest.clone());
            }
            s.final_states.insert(r.final_state.clone());
            for (k2, v) in &r.counters {
                *s.counters.entry(k2.clone()).or_insert(0) += v;
            }
            if s.samples.len() < 2 && i < 2 * n {
                s.samples.push(r.sample.clone());
            }
            for (class, detail) in &r.violations {
                let ent = s.violations.entry(class.clone()).or_insert((0, Value::Null));
                ent.0 += 1;
                if ent.1.is_null() {
                    ent.1 = json!({"index": i, "detail": detail, "digest": r.digest, "spec": spec});
                }
            }
        }
        i += n;
    }
    s
}

fn minimise<E: Engine>(e: &E, prop: &str, spec: &Value, class: &str, wall_s: u64) -> Value {
    let t0 = Instant::now();
    let mut best = spec.clone();
    let mut progress = true;
    let mut evals = 0;
    while progress && t0.elapsed().as_secs() < wall_s && evals < 600 {
        progress = false;
        for cand in e.shrink(prop, &best) {
            if t0.elapsed().as_secs() >= wall_s || evals >= 600 {
                break;
            }
            evals += 1;
            let r = run_fast(e, prop, &cand);
            if r.error.is_none() && r.has(class) {
                best = cand;
                progress = true;
                break;
            }
        }
    }
    let r = run_isolated(e, prop, &best, false);
    if r.error.is_none() && r.has(class) { best } else { spec.clone() }
}

fn replay_path(prop: &str, class: &str) -> String {
    let dir = format!("{}/{prop}", std::env::var("VERIF_REPLAY_DIR").unwrap_or_else(|_| "/verif/replays".into()));
    let _ = std::fs::create_dir_all(&dir);
    format!("{dir}/{}.json", crate::digest_str(class))
}

fn confirm_replay(path: &str, class: &str) -> bool {
    let exe = std::env::current_exe().expect("exe");
    match std::process::Command::new(exe).args(["replay", "--file", path, "--quiet"]).output() {
        Ok(o) => String::from_utf8_lossy(&o.stdout).lines().any(|l| l.starts_with("REPLAY-OK") && l.contains(&format!("class={class}"))),
        Err(_) => false,
    }
}

fn record_replay(path: &str, class: &str) -> bool {
    let exe = std::env::current_exe().expect("exe");
    match std::process::Command::new(exe).args(["replay", "--file", path, "--quiet", "--record"]).output() {
        Ok(o) => String::from_utf8_lossy(&o.stdout).lines().any(|l| l.starts_with("REPLAY-RECORDED") && l.contains(&format!("class={class}"))),
        Err(_) => false,
    }
}

pub fn quiet_stderr() {
    if std::env::var_os("VERIF_KEEP_STDERR").is_some() {
        return;
    }
    unsafe {
        let fd = libc::open(c"/dev/null".as_ptr(), libc::O_WRONLY);
        if fd >= 0 {
            libc::dup2(fd, 2);
        }
    }
}

/// `check --prop P [--tier T] [--runs N]`
pub fn check<E: Engine>(e: &E, args: &[String]) -> i32 {
    let prop = arg(args, "--prop").expect("--prop");
    let tier = arg(args, "--tier").or_else(|| std::env::var("VERIF_TIER").ok()).unwrap_or_else(|| "quick".into());
    let base = crate::verif_seed();
    let runs: u64 = arg(args, "--runs").and_then(|s| s.parse().ok()).unwrap_or_else(|| e.default_runs(&prop, &tier));
    let wall: u64 = arg(args, "--wall-s").and_then(|s| s.parse().ok()).unwrap_or(if tier == "thorough" { 900 } else { 0 });
    if let Some(w) = arg(args, "--worker") {
        let (k, n) = crate::workers::parse_worker(&w).expect("k/n");
        quiet_stderr();
        let s = worker(e, &prop, base, runs, k as u64, n as u64, wall, args.iter().any(|a| a == "--isolated"));
        println!("{}", s.to_json());
        return 0;
    }
    println!("VERIF_SEED={base} property={prop} tier={tier} runs={runs} engine={}", e.engine_name());
    let t0 = Instant::now();
    let n = crate::workers::worker_count();
    let mut wargs = vec!["check".to_string()];
    wargs.extend_from_slice(args);
    let outs = match crate::workers::fan_out(&wargs, n) {
        Ok(o) => o,
        Err(x) => {
            println!("HARNESS-ERROR {x}");
            return 2;
        }
    };
    let mut total = Summary::default();
    for o in outs {
        match serde_json::from_str::<Value>(o.trim()) {
            Ok(v) => total.merge(&v),
            Err(x) => {
                println!("HARNESS-ERROR worker output not JSON: {x}");
                return 2;
            }
        }
    }
    if !total.harness_errors.is_empty() {
        for x in total.harness_errors.iter().take(5) {
            println!("HARNESS-ERROR {x}");
        }
        return 2;
    }
    e.warm_up();
    let known = KnownFindings::load();
    let (mut new_v, mut known_hits, mut harness_fail) = (0i64, 0u64, false);
    let mut report = Vec::new();
    let min_t0 = Instant::now();
    for (class, (count, ex)) in &total.violations {
        let Some(spec) = ex.get("spec") else { continue };
        let detail = ex.get("detail").and_then(|d| d.as_str()).unwrap_or("");
        let is_known = known.matches(&prop, class);
        let minimised = if is_known.is_some() || min_t0.elapsed().as_secs() > 90 { spec.clone() } else { minimise(e, &prop, spec, class, 20) };
        let canon = run_isolated(e, &prop, &minimised, false);
        let detail2 = canon.violations.iter().find(|v| &v.0 == class).map(|v| v.1.clone()).unwrap_or_else(|| detail.to_string());
        let path = replay_path(&prop, class);
        let doc = json!({"property": prop, "engine": e.engine_name(), "violation_class": class, "detail": detail2, "digest": "", "spec": minimised});
        std::fs::write(&path, serde_json::to_string_pretty(&doc).unwrap()).expect("write replay");
        // the canonical execution is "fresh process, warm-up, forked child": the digest is
        // recorded by such a process and then confirmed by two more
        let recorded = record_replay(&path, class);
        if !(recorded && confirm_replay(&path, class) && confirm_replay(&path, class)) {
            println!("HARNESS-ERROR violation class {class} did not reproduce from {path} in a fresh process");
            harness_fail = true;
            continue;
        }
        report.push(json!({"class": class, "runs": count, "replay": path, "known": is_known.is_some()}));
        if let Some(f) = is_known {
            known_hits += 1;
            println!("KNOWN-FINDING: property={prop} {} [class {class}, {count} of {} runs, replay={path}]", f.what, total.runs);
        } else {
            new_v += 1;
            println!("VIOLATION property={prop} replay={path}");
            println!("  class: {class}  ({count} of {} runs)", total.runs);
            println!("  detail: {}", detail2.chars().take(1200).collect::<String>());
        }
    }
    let wall_s = t0.elapsed().as_secs_f64();
    let mut cov = Map::new();
    cov.insert("evaluations".into(), json!(total.runs));
    cov.insert("distinct_nontrivial".into(), json!(total.digests.len()));
    cov.insert("rule".into(), json!(e.rule(&prop)));
    cov.insert("samples".into(), Value::Array(total.samples.clone()));
    cov.insert("runs_per_hour".into(), json!((total.runs as f64 / wall_s.max(0.001) * 3600.0) as u64));
    cov.insert("nontrivial_runs".into(), json!(total.nontrivial));
    cov.insert("distinct_final_states".into(), json!(total.final_states.len()));
    cov.insert("counters_and_probes".into(), json!(total.counters));
    cov.insert("violation_classes".into(), Value::Array(report));
    cov.insert("known_findings_hit".into(), json!(known_hits));
    cov.insert("wall_budget_hit".into(), json!(total.wall_budget_hit));
    cov.insert("workers".into(), json!(n));
    for (k, v) in e.extra_coverage(&prop) {
        cov.insert(k, v);
    }
    crate::evidence::Evidence {
        property_id: prop.clone(),
        tier,
        seed: base,
        level: e.level().into(),
        coverage: cov,
        assumptions: e.assumptions(&prop),
        wall_s,
        violations: new_v,
    }
    .write();
    println!("runs={} distinct={} wall_s={:.1} new_violations={} known_findings={}", total.runs, total.digests.len(), wall_s, new_v, known_hits);
    if harness_fail {
        return 2;
    }
    if new_v > 0 { 1 } else { 0 }
}

/// `replay --file F [--quiet]`
pub fn replay<E: Engine>(e: &E, args: &[String]) -> i32 {
    let file = arg(args, "--file").expect("--file");
    let quiet = args.iter().any(|a| a == "--quiet");
    let v: Value = serde_json::from_str(&std::fs::read_to_string(&file).expect("read replay")).expect("replay json");
    let prop = v["property"].as_str().unwrap_or("").to_string();
    let class = v["violation_class"].as_str().unwrap_or("").to_string();
    let want = v["digest"].as_str().unwrap_or("").to_string();
    if quiet {
        quiet_stderr();
    }
    e.warm_up();
    let r = run_isolated(e, &prop, &v["spec"], !quiet);
    if let Some(x) = &r.error {
        println!("HARNESS-ERROR {x}");
        return 2;
    }
    if !quiet {
        for (c, d) in &r.violations {
            println!("violation: {c} -- {d}");
        }
    }
    if args.iter().any(|a| a == "--record") {
        if r.has(&class) {
            let mut doc = v.clone();
            doc["digest"] = Value::from(r.digest.clone());
            if let Some(d) = r.violations.iter().find(|x| x.0 == class) {
                doc["detail"] = Value::from(d.1.clone());
            }
            std::fs::write(&file, serde_json::to_string_pretty(&doc).unwrap()).expect("write replay");
            println!("REPLAY-RECORDED class={class} digest={}", r.digest);
            return 1;
        }
        println!("REPLAY-CLEAN recorded class {class} not reproduced");
        return 0;
    }
    if r.has(&class) && r.digest == want {
        println!("REPLAY-OK class={class} digest={}", r.digest);
        println!("VIOLATION property={prop} replay={file}");
        1
    } else if r.has(&class) {
        println!("REPLAY-DIVERGED class={class} reproduced but digest {} != recorded {want}", r.digest);
        2
    } else {
        println!("REPLAY-CLEAN recorded class {class} not reproduced (classes now: {:?})", r.violations.iter().map(|x| &x.0).collect::<Vec<_>>());
        0
    }
}

/// `one --prop P --index I [-v]`
pub fn one<E: Engine>(e: &E, args: &[String]) -> i32 {
    let prop = arg(args, "--prop").expect("--prop");
    let index: u64 = arg(args, "--index").and_then(|s| s.parse().ok()).unwrap_or(0);
    let spec = e.generate(&prop, crate::rng::run_seed(crate::verif_seed(), index));
    e.warm_up();
    if args.iter().any(|a| a == "--spec") {
        println!("{}", serde_json::to_string_pretty(&spec).unwrap());
    }
    let r = run_isolated(e, &prop, &spec, args.iter().any(|a| a == "-v"));
    if let Some(x) = &r.error {
        println!("HARNESS-ERROR {x}");
        return 2;
    }
    for (c, d) in &r.violations {
        println!("violation: {c} -- {d}");
    }
    println!("digest={} nontrivial={} counters={:?}", r.digest, r.nontrivial, r.counters);
    0
}

/// `digests --prop P --runs N [--reverse]`: determinism self-test helper.
pub fn digests<E: Engine>(e: &E, args: &[String]) -> i32 {
    let prop = arg(args, "--prop").expect("--prop");
    let runs: u64 = arg(args, "--runs").and_then(|s| s.parse().ok()).unwrap_or(32);
    quiet_stderr();
    e.warm_up();
    let mut idx: Vec<u64> = (0..runs).collect();
    if args.iter().any(|a| a == "--reverse") {
        idx.reverse();
    }
    let mut lines = Vec::new();
    for i in idx {
        let spec = e.generate(&prop, crate::rng::run_seed(crate::verif_seed(), i));
        let r = run_isolated(e, &prop, &spec, false);
        lines.push((i, format!("{i} {} {:?}", r.digest, r.violations.iter().map(|v| v.0.clone()).collect::<Vec<_>>())));
    }
    lines.sort();
    for (_, l) in lines {
        println!("{l}");
    }
    0
}

pub fn main_dispatch<E: Engine>(e: &E) -> i32 {
    crate::ensure_no_aslr();
    let args: Vec<String> = std::env::args().skip(1).collect();
    if args.is_empty() {
        eprintln!("usage: check|replay|one|digests ...");
        return 2;
    }
    match args[0].as_str() {
        "check" => check(e, &args[1..]),
        "replay" => replay(e, &args[1..]),
        "one" => one(e, &args[1..]),
        "digests" => digests(e, &args[1..]),
        other => {
            eprintln!("unknown command {other}");
            2
        }
    }
}
