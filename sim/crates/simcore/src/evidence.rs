//! Evidence file writer (schema: /root/.vp/EVIDENCE.schema.json).

use serde_json::{Map, Value, json};

pub struct Evidence {
    pub property_id: String,
    pub tier: String,
    pub seed: u64,
    pub level: String,
    pub coverage: Map<String, Value>,
    pub assumptions: Vec<String>,
    pub wall_s: f64,
    pub violations: i64,
}

impl Evidence {
    pub fn write(&self) {
        let dir = std::env::var("VERIF_EVIDENCE_DIR").unwrap_or_else(|_| "/verif/evidence".into());
        let _ = std::fs::create_dir_all(&dir);
        let v = json!({
            "property_id": self.property_id,
            "tier": self.tier,
            "seed": self.seed,
            "level": self.level,
            "coverage": Value::Object(self.coverage.clone()),
            "assumptions": self.assumptions,
            "wall_s": self.wall_s,
            "violations": self.violations,
        });
        let path = format!("{dir}/{}.json", self.property_id);
        let tmp = format!("{path}.tmp");
        std::fs::write(&tmp, serde_json::to_string_pretty(&v).unwrap()).expect("write evidence");
        std::fs::rename(&tmp, &path).expect("rename evidence");
    }
}

/// Merge numeric counters: a[k] += b[k].
pub fn add_counters(a: &mut Map<String, Value>, b: &Map<String, Value>) {
    for (k, v) in b {
        let add = v.as_u64().unwrap_or(0);
        let cur = a.get(k).and_then(|x| x.as_u64()).unwrap_or(0);
        a.insert(k.clone(), Value::from(cur + add));
    }
}
