//! Worker-process fan-out. The hash seam and foldhash epoch are per thread, but panic hooks,
//! loggers and the `internment` interner are process-global, so parallelism uses processes.
//! Run seeds depend only on the run index, therefore verdicts do not depend on worker count.

use std::io::Read;
use std::process::{Command, Stdio};

pub fn worker_count() -> usize {
    std::env::var("VERIF_WORKERS")
        .ok()
        .and_then(|s| s.parse().ok())
        .unwrap_or_else(|| {
            std::thread::available_parallelism()
                .map(|n| n.get())
                .unwrap_or(4)
                .min(16)
        })
}

/// Re-execute the current binary `n` times with `args` + `--worker k/n`; collect each worker's
/// stdout (expected: one JSON document). Returns Err on a worker that died abnormally.
pub fn fan_out(args: &[String], n: usize) -> Result<Vec<String>, String> {
    let exe = std::env::current_exe().map_err(|e| e.to_string())?;
    let mut children = Vec::new();
    for k in 0..n {
        let mut c = Command::new(&exe);
        c.args(args)
            .arg("--worker")
            .arg(format!("{k}/{n}"))
            .stdin(Stdio::null())
            .stdout(Stdio::piped())
            .stderr(Stdio::inherit());
        let child = c.spawn().map_err(|e| format!("spawn worker: {e}"))?;
        children.push(child);
    }
    // read all outputs concurrently (threads) to avoid pipe back-pressure deadlocks
    let mut handles = Vec::new();
    for mut child in children {
        handles.push(std::thread::spawn(move || {
            let mut out = String::new();
            if let Some(mut so) = child.stdout.take() {
                let _ = so.read_to_string(&mut out);
            }
            let status = child.wait();
            (out, status)
        }));
    }
    let mut outs = Vec::new();
    for (k, h) in handles.into_iter().enumerate() {
        let (out, status) = h.join().map_err(|_| "worker reader panicked".to_string())?;
        match status {
            Ok(s) if s.success() => outs.push(out),
            Ok(s) => return Err(format!("worker {k} exited with {s}; stdout tail: {}", tail(&out))),
            Err(e) => return Err(format!("worker {k}: {e}")),
        }
    }
    Ok(outs)
}

fn tail(s: &str) -> String {
    let n = s.len();
    s[n.saturating_sub(400)..].to_string()
}

/// Parse "k/n".
pub fn parse_worker(s: &str) -> Option<(usize, usize)> {
    let (a, b) = s.split_once('/')?;
    Some((a.parse().ok()?, b.parse().ok()?))
}
