//! Scratch directories whose path is a pure function of (tag, seed): paths end up in URIs, in
//! hash iteration orders and in outputs, so a replay must use the same path. Exclusive ownership
//! through mkdir + owner pid file (stale directories of dead processes are taken over).

use std::path::{Path, PathBuf};
use std::time::Duration;

pub fn scratch_base() -> PathBuf {
    if let Ok(p) = std::env::var("VERIF_SCRATCH") {
        return PathBuf::from(p);
    }
    if Path::new("/dev/shm").is_dir() { PathBuf::from("/dev/shm/verif-scratch") } else { PathBuf::from("/tmp/verif-scratch") }
}

pub struct RunDir(pub PathBuf);

impl RunDir {
    pub fn acquire(tag: &str, seed: u64) -> RunDir {
        let base = scratch_base();
        // two levels: spreads directory-lock contention between worker processes
        let shard = base.join(format!("{:02x}", seed & 0xff));
        let _ = std::fs::create_dir_all(&shard);
        let dir = shard.join(format!("{tag}-{seed:016x}"));
        let mut spins = 0u32;
        loop {
            match std::fs::create_dir(&dir) {
                Ok(()) => break,
                Err(e) if e.kind() == std::io::ErrorKind::AlreadyExists => {
                    let owner = std::fs::read_to_string(dir.join(".owner")).ok();
                    let alive = owner
                        .as_deref()
                        .and_then(|s| s.trim().parse::<u32>().ok())
                        .map(|pid| pid != std::process::id() && Path::new(&format!("/proc/{pid}")).exists())
                        .unwrap_or(false);
                    if !alive || spins > 6000 {
                        let _ = std::fs::remove_dir_all(&dir);
                    } else {
                        std::thread::sleep(Duration::from_millis(10));
                    }
                    spins += 1;
                }
                Err(e) => panic!("harness: cannot create {dir:?}: {e}"),
            }
        }
        let _ = std::fs::write(dir.join(".owner"), std::process::id().to_string());
        RunDir(dir)
    }
}

impl Drop for RunDir {
    fn drop(&mut self) {
        let _ = std::fs::remove_dir_all(&self.0);
    }
}
