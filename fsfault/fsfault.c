/* LD_PRELOAD fault-injection shim for E-FS (C39).
 *
 * Numbers every mutating file-system call on paths under $FSFAULT_ROOT (and on file
 * descriptors opened for writing there), logs it to $FSFAULT_LOG, and at the call index given by
 * $FSFAULT_PLAN injects one fault:
 *   "<idx>:kill_before"        die (SIGKILL) before performing the call
 *   "<idx>:kill_after"         perform the call, then die
 *   "<idx>:errno:<n>"          fail the call with errno n (once)
 *   "<idx>:short:<bytes>"      (write calls) write only <bytes> bytes, return that count
 *   "<idx>:torn:<bytes>"       (write calls) write <bytes> bytes, then die
 *   "budget:<bytes>"           sticky disk-full: after <bytes> written in total every write
 *                              fails with ENOSPC (a write crossing the limit is cut short)
 * Nothing else is changed. Calls on other paths pass straight through.
 */
#define _GNU_SOURCE
#include <dlfcn.h>
#include <errno.h>
#include <fcntl.h>
#include <signal.h>
#include <stdarg.h>
#include <stdio.h>
#include <stdlib.h>
#include <string.h>
#include <sys/stat.h>
#include <sys/types.h>
#include <sys/uio.h>
#include <unistd.h>
#include <limits.h>

#define MAXFD 4096
static char tracked[MAXFD];      /* 1 = fd opened for writing under the root */
static char fdpath[MAXFD][256];
static const char *root;
static size_t rootlen;
static int logfd = -1;
static long call_index = 0;
static long plan_index = -1;
static char plan_kind[32];
static long plan_arg = 0;
static long budget = -1;         /* bytes still allowed; -1 = unlimited */
static int initialised = 0;

static void init(void) {
    if (initialised) return;
    initialised = 1;
    root = getenv("FSFAULT_ROOT");
    rootlen = root ? strlen(root) : 0;
    const char *lp = getenv("FSFAULT_LOG");
    if (lp) {
        int (*real_open)(const char *, int, ...) = dlsym(RTLD_NEXT, "open");
        logfd = real_open(lp, O_WRONLY | O_CREAT | O_APPEND | O_CLOEXEC, 0644);
    }
    const char *p = getenv("FSFAULT_PLAN");
    if (p && *p) {
        if (strncmp(p, "budget:", 7) == 0) {
            budget = atol(p + 7);
        } else {
            char buf[128];
            strncpy(buf, p, sizeof buf - 1);
            buf[sizeof buf - 1] = 0;
            char *c1 = strchr(buf, ':');
            if (c1) {
                *c1 = 0;
                plan_index = atol(buf);
                char *c2 = strchr(c1 + 1, ':');
                if (c2) { *c2 = 0; plan_arg = atol(c2 + 1); }
                strncpy(plan_kind, c1 + 1, sizeof plan_kind - 1);
            }
        }
    }
}

static int under_root(const char *path) {
    if (!root || !path) return 0;
    char abs[PATH_MAX];
    if (path[0] != '/') {
        if (!getcwd(abs, sizeof abs)) return 0;
        size_t l = strlen(abs);
        snprintf(abs + l, sizeof abs - l, "/%s", path);
        path = abs;
    }
    return strncmp(path, root, rootlen) == 0;
}

static void logline(const char *fmt, ...) {
    if (logfd < 0) return;
    char buf[600];
    va_list ap;
    va_start(ap, fmt);
    int n = vsnprintf(buf, sizeof buf - 1, fmt, ap);
    va_end(ap);
    if (n < 0) return;
    if (n > (int)sizeof buf - 2) n = sizeof buf - 2;
    buf[n++] = '\n';
    ssize_t (*real_write)(int, const void *, size_t) = dlsym(RTLD_NEXT, "write");
    real_write(logfd, buf, n);
}

static void die(void) {
    logline("DIE");
    kill(getpid(), SIGKILL);
    _exit(137);
}

/* Returns the action for this tracked call: 0 none, 1 kill_before, 2 kill_after, 3 errno,
 * 4 short, 5 torn */
static int point(const char *name, const char *what, long *idx_out) {
    long idx = call_index++;
    if (idx_out) *idx_out = idx;
    logline("%ld %s %s", idx, name, what ? what : "");
    if (idx != plan_index) return 0;
    if (!strcmp(plan_kind, "kill_before")) return 1;
    if (!strcmp(plan_kind, "kill_after")) return 2;
    if (!strcmp(plan_kind, "errno")) return 3;
    if (!strcmp(plan_kind, "short")) return 4;
    if (!strcmp(plan_kind, "torn")) return 5;
    return 0;
}

static const char *rel(const char *path) {
    if (root && path && strncmp(path, root, rootlen) == 0) return path + rootlen;
    return path ? path : "?";
}

static int is_write_open(int flags) {
    int acc = flags & O_ACCMODE;
    return acc == O_WRONLY || acc == O_RDWR || (flags & (O_CREAT | O_TRUNC | O_APPEND));
}

static int do_open(const char *fname, int dirfd, const char *path, int flags, mode_t mode) {
    init();
    int (*real_openat)(int, const char *, int, ...) = dlsym(RTLD_NEXT, "openat");
    int counted = (dirfd == AT_FDCWD || path[0] == '/') && under_root(path) && is_write_open(flags);
    if (!counted) return real_openat(dirfd, path, flags, mode);
    char what[400];
    snprintf(what, sizeof what, "%s flags=%s%s%s%s", rel(path), (flags & O_TRUNC) ? "TRUNC|" : "", (flags & O_CREAT) ? "CREAT|" : "",
             (flags & O_EXCL) ? "EXCL|" : "", (flags & O_APPEND) ? "APPEND" : "");
    int act = point(fname, what, NULL);
    if (act == 1) die();
    if (act == 3) { errno = (int)plan_arg; logline("  -> injected errno %ld", plan_arg); return -1; }
    int fd = real_openat(dirfd, path, flags, mode);
    if (fd >= 0 && fd < MAXFD) {
        tracked[fd] = 1;
        strncpy(fdpath[fd], rel(path), sizeof fdpath[fd] - 1);
    }
    if (act == 2) die();
    return fd;
}

int open(const char *path, int flags, ...) {
    mode_t mode = 0;
    if (flags & (O_CREAT | O_TMPFILE)) { va_list ap; va_start(ap, flags); mode = va_arg(ap, mode_t); va_end(ap); }
    return do_open("open", AT_FDCWD, path, flags, mode);
}
int open64(const char *path, int flags, ...) {
    mode_t mode = 0;
    if (flags & (O_CREAT | O_TMPFILE)) { va_list ap; va_start(ap, flags); mode = va_arg(ap, mode_t); va_end(ap); }
    return do_open("open", AT_FDCWD, path, flags, mode);
}
int openat(int dirfd, const char *path, int flags, ...) {
    mode_t mode = 0;
    if (flags & (O_CREAT | O_TMPFILE)) { va_list ap; va_start(ap, flags); mode = va_arg(ap, mode_t); va_end(ap); }
    return do_open("openat", dirfd, path, flags, mode);
}
int openat64(int dirfd, const char *path, int flags, ...) {
    mode_t mode = 0;
    if (flags & (O_CREAT | O_TMPFILE)) { va_list ap; va_start(ap, flags); mode = va_arg(ap, mode_t); va_end(ap); }
    return do_open("openat", dirfd, path, flags, mode);
}
int creat(const char *path, mode_t mode) { return do_open("creat", AT_FDCWD, path, O_CREAT | O_WRONLY | O_TRUNC, mode); }
int creat64(const char *path, mode_t mode) { return do_open("creat", AT_FDCWD, path, O_CREAT | O_WRONLY | O_TRUNC, mode); }

static ssize_t do_write(const char *fname, int fd, const void *buf, size_t count, off_t off, int positional) {
    init();
    ssize_t (*real_write)(int, const void *, size_t) = dlsym(RTLD_NEXT, "write");
    ssize_t (*real_pwrite)(int, const void *, size_t, off_t) = dlsym(RTLD_NEXT, "pwrite64");
    if (fd < 0 || fd >= MAXFD || !tracked[fd]) return positional ? real_pwrite(fd, buf, count, off) : real_write(fd, buf, count);
    char what[320];
    snprintf(what, sizeof what, "%s len=%zu", fdpath[fd], count);
    int act = point(fname, what, NULL);
    if (act == 1) die();
    if (act == 3) { errno = (int)plan_arg; logline("  -> injected errno %ld", plan_arg); return -1; }
    size_t n = count;
    if ((act == 4 || act == 5) && (size_t)plan_arg < count) n = (size_t)plan_arg;
    if (budget >= 0) {
        if (budget == 0) { errno = ENOSPC; logline("  -> disk full"); return -1; }
        if ((long)n > budget) n = (size_t)budget;
    }
    ssize_t r = 0;
    if (n > 0) r = positional ? real_pwrite(fd, buf, n, off) : real_write(fd, buf, n);
    else if (act == 4 || act == 5) r = 0;
    if (r > 0 && budget >= 0) budget -= r;
    if (act == 5 || act == 2) die();
    if (act == 4 && n == 0) { errno = EINTR; return -1; } /* a zero-byte short write is reported as EINTR */
    return r;
}
ssize_t write(int fd, const void *buf, size_t count) { return do_write("write", fd, buf, count, 0, 0); }
ssize_t pwrite(int fd, const void *buf, size_t count, off_t off) { return do_write("pwrite", fd, buf, count, off, 1); }
ssize_t pwrite64(int fd, const void *buf, size_t count, off_t off) { return do_write("pwrite", fd, buf, count, off, 1); }
ssize_t writev(int fd, const struct iovec *iov, int iovcnt) {
    init();
    ssize_t (*real_writev)(int, const struct iovec *, int) = dlsym(RTLD_NEXT, "writev");
    if (fd < 0 || fd >= MAXFD || !tracked[fd]) return real_writev(fd, iov, iovcnt);
    /* deliver the first non-empty segment through the write path (a legal short writev) */
    for (int i = 0; i < iovcnt; i++)
        if (iov[i].iov_len) return do_write("writev", fd, iov[i].iov_base, iov[i].iov_len, 0, 0);
    return 0;
}

int close(int fd) {
    init();
    int (*real_close)(int) = dlsym(RTLD_NEXT, "close");
    if (fd < 0 || fd >= MAXFD || !tracked[fd]) return real_close(fd);
    int act = point("close", fdpath[fd], NULL);
    if (act == 1) die();
    tracked[fd] = 0;
    int r = real_close(fd);
    if (act == 3) { errno = (int)plan_arg; logline("  -> injected errno %ld (after close)", plan_arg); return -1; }
    if (act == 2) die();
    return r;
}

static int do_sync(const char *fname, int fd) {
    init();
    int (*real)(int) = dlsym(RTLD_NEXT, fname);
    if (fd < 0 || fd >= MAXFD || !tracked[fd]) return real(fd);
    int act = point(fname, fdpath[fd], NULL);
    if (act == 1) die();
    if (act == 3) { errno = (int)plan_arg; logline("  -> injected errno %ld", plan_arg); return -1; }
    int r = real(fd);
    if (act == 2) die();
    return r;
}
int fsync(int fd) { return do_sync("fsync", fd); }
int fdatasync(int fd) { return do_sync("fdatasync", fd); }

static int do_rename(const char *fname, int od, const char *o, int nd, const char *n, unsigned flags) {
    init();
    int (*real_renameat2)(int, const char *, int, const char *, unsigned) = dlsym(RTLD_NEXT, "renameat2");
    int (*real_renameat)(int, const char *, int, const char *) = dlsym(RTLD_NEXT, "renameat");
    int counted = under_root(o) || under_root(n);
    if (!counted) return flags ? real_renameat2(od, o, nd, n, flags) : real_renameat(od, o, nd, n);
    char what[520];
    snprintf(what, sizeof what, "%s -> %s", rel(o), rel(n));
    int act = point(fname, what, NULL);
    if (act == 1) die();
    if (act == 3) { errno = (int)plan_arg; logline("  -> injected errno %ld", plan_arg); return -1; }
    int r = flags ? real_renameat2(od, o, nd, n, flags) : real_renameat(od, o, nd, n);
    if (act == 2) die();
    return r;
}
int rename(const char *o, const char *n) { return do_rename("rename", AT_FDCWD, o, AT_FDCWD, n, 0); }
int renameat(int od, const char *o, int nd, const char *n) { return do_rename("renameat", od, o, nd, n, 0); }
int renameat2(int od, const char *o, int nd, const char *n, unsigned flags) { return do_rename("renameat2", od, o, nd, n, flags); }

#define PATHCALL(NAME, PROTO, ARGS, PATHEXPR)                                                 \
    int NAME PROTO {                                                                          \
        init();                                                                               \
        int(*real) PROTO = dlsym(RTLD_NEXT, #NAME);                                           \
        if (!under_root(PATHEXPR)) return real ARGS;                                          \
        int act = point(#NAME, rel(PATHEXPR), NULL);                                          \
        if (act == 1) die();                                                                  \
        if (act == 3) { errno = (int)plan_arg; logline("  -> injected errno %ld", plan_arg); return -1; } \
        int r = real ARGS;                                                                    \
        if (act == 2) die();                                                                  \
        return r;                                                                             \
    }
PATHCALL(unlink, (const char *p), (p), p)
PATHCALL(unlinkat, (int d, const char *p, int f), (d, p, f), p)
PATHCALL(truncate, (const char *p, off_t l), (p, l), p)
PATHCALL(truncate64, (const char *p, off_t l), (p, l), p)
PATHCALL(chmod, (const char *p, mode_t m), (p, m), p)
PATHCALL(link, (const char *o, const char *n), (o, n), n)
PATHCALL(linkat, (int od, const char *o, int nd, const char *n, int f), (od, o, nd, n, f), n)
PATHCALL(symlink, (const char *o, const char *n), (o, n), n)

#define FDCALL(NAME, PROTO, ARGS)                                                             \
    int NAME PROTO {                                                                          \
        init();                                                                               \
        int(*real) PROTO = dlsym(RTLD_NEXT, #NAME);                                           \
        if (fd < 0 || fd >= MAXFD || !tracked[fd]) return real ARGS;                          \
        int act = point(#NAME, fdpath[fd], NULL);                                             \
        if (act == 1) die();                                                                  \
        if (act == 3) { errno = (int)plan_arg; logline("  -> injected errno %ld", plan_arg); return -1; } \
        int r = real ARGS;                                                                    \
        if (act == 2) die();                                                                  \
        return r;                                                                             \
    }
FDCALL(ftruncate, (int fd, off_t l), (fd, l))
FDCALL(ftruncate64, (int fd, off_t l), (fd, l))
FDCALL(fchmod, (int fd, mode_t m), (fd, m))
