#!/bin/bash
# Build the framework from files on disk only (offline).
set -e
cd "$(dirname "$0")"
export CARGO_NET_OFFLINE=true
(cd sim && cargo build --release --offline 2>&1 | tail -3)
gcc -O2 -fPIC -shared -o fsfault/libfsfault.so fsfault/fsfault.c -ldl
(cd /repo && cargo build --release --offline -p emmylua_formatter --bin luafmt --target-dir /verif/target/repo 2>&1 | tail -1)
# compile the Miri harness once (a 1-thread run of the tiny workload)
(cd miri-c38 && MIRIFLAGS="-Zmiri-disable-stacked-borrows -Zmiri-disable-isolation -Zmiri-seed=1" cargo +nightly miri run --offline -- 1 0 2>&1 | tail -1)
echo "setup ok"
