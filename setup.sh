#!/bin/bash
# Build the framework from files on disk only (offline).
set -e
cd "$(dirname "$0")"
export CARGO_NET_OFFLINE=true
(cd sim && cargo build --release --offline 2>&1 | tail -3)
echo "setup ok"
