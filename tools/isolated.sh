#!/bin/bash
# tools/isolated.sh <dir> <command...>
# Runs a /verif command (e.g. ./selftest sensitivity) against a private copy of the repository
# and of this framework under <dir> (outside /repo and /verif), so that patches can be applied
# and checks run without touching /repo or /verif/target. Used for the sensitivity suite, which
# would otherwise block /repo for hours. Nothing registered in MANIFEST.json depends on it.
set -eu
D=$1; shift
mkdir -p "$D"
if [ ! -d "$D/repo/.git" ] && [ ! -f "$D/repo/.git" ]; then
  git -C /repo worktree add --detach "$D/repo" HEAD >/dev/null 2>&1
else
  git -C "$D/repo" checkout -q --detach "$(git -C /repo rev-parse HEAD)"
fi
rm -rf "$D/verif"
mkdir -p "$D/verif"
(cd /verif && tar cf - --exclude=./target --exclude=./.git --exclude=./replays --exclude=./evidence .) | (cd "$D/verif" && tar xf -)
mkdir -p "$D/verif/replays" "$D/verif/evidence"
[ -d "$D/target" ] || cp -r /verif/target "$D/target"
ln -sfn "$D/target" "$D/verif/target"
grep -rlE "/repo|/verif/target" "$D/verif" --include=Cargo.toml --include=config.toml --include=check --include=c38.py --include=setup.sh --include=selftest \
  | xargs sed -i -e "s#/verif/target#$D/target#g" -e "s#\"/repo/#\"$D/repo/#g" -e "s#cd /repo #cd $D/repo #g" -e "s#-C /repo#-C $D/repo#g"
export VERIF_REPLAY_DIR="$D/verif/replays" VERIF_EVIDENCE_DIR="$D/verif/evidence" VERIF_SCRATCH="/dev/shm/verif-scratch-iso"
export VERIF_LUAFMT="$D/target/repo/release/luafmt" VERIF_FSFAULT="$D/verif/fsfault/libfsfault.so"
export VERIF_KNOWN_FINDINGS=/verif/known-findings.json
cd "$D/verif"
exec "$@"
