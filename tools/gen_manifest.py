#!/usr/bin/env python3
"""Regenerates /verif/MANIFEST.json (kept in one place so the claimed / not-applicable lists stay consistent)."""
import json, os
HERE = os.path.dirname(os.path.dirname(os.path.abspath(__file__)))

NA = {
"C01":"pure function of (text, config): no schedule, clock, fault or history of state to simulate",
"C02":"pure function of (text, config, stack size); the 2 MiB stack is a fixed resource parameter, not a schedule",
"C03":"pure function of text; needs a reference Lua compiler, not a schedule",
"C05":"pure function of (text, formatter config)",
"C06":"pure function of (text, formatter config)",
"C07":"pure function of (text, range, config)",
"C12":"crash-freedom of indexing/queries over programs: a function of the input program only",
"C13":"name resolution is a pure function of the program",
"C14":"rename/references agreement is a pure function of the program",
"C15":"narrowing soundness over programs; needs a Lua VM oracle, no schedule or fault involved",
"C16":"type algebra over generated types: pure",
"C17":"rendering/parsing of types: pure",
"C18":"generic instantiation: pure",
"C19":"diagnostic suppression as a function of (program, comments)",
"C20":"diagnostics as a function of (program, configuration)",
"C21":"well-formedness of diagnostics as a function of the program",
"C22":"offset/position arithmetic over texts: pure",
"C23":"UTF-16 / line-ending handling over texts: pure",
"C25":"handler results as a function of (document, position); the task machinery around them is judged under C24",
"C26":"structural validity of LSP results as a function of (document, request)",
"C31":"config loading over file contents: pure (its hash-order aspect is judged under C32)",
"C34":"path/URI conversion: pure",
"C37":"markup parser: pure function of the comment text",
"C40":"schema converter: pure function of the schema",
"C41":"narrowing after loops over programs; needs a Lua VM oracle",
}
# claimed-in-design but not built yet: listed as not applicable *for now* with the honest reason
PENDING = {}

LS_NOTE = "trusted: vendored tokio/foldhash seam patches, tokio paused clock, emmy/syntaxTree as content probe; interleavings at await points and seeded pre-acquire yields only (synchronous stretches are atomic); sampling, not proof"
LS_TECH = "deterministic simulation: real language server on a seeded single-thread tokio scheduler with paused clock, in-memory transport and simulated client; seeded search over scripts, schedules and client/watcher/clock faults; replayable decision traces"
AN_NOTE = "trusted: hash-seed seam (interposed getrandom + vendored foldhash), observation through public query APIs and the feature-gated size report; single-threaded histories; sampling, not proof"
AN_TECH = "deterministic simulation of operation histories: seeded histories against the real analysis with reference analyses as oracle, every hash iteration order pinned (and re-checked under other seeds) by the owned hash-seed seam; replayable specs"

CHECKS = []
def add(pid, engine, level, text, note, tech):
    CHECKS.append({
        "property_id": pid,
        "quick_cmd": f"./check {pid} --tier quick",
        "thorough_cmd": f"./check {pid} --tier thorough",
        "evidence_file": f"/verif/evidence/{pid}.json",
        "replay_cmd_template": f"./check {pid} --replay {{path}}",
        "engine": engine,
        "level_claimed": {"category": level, "text": text, "design_ref": "DESIGN.md §5 " + pid},
        "level_note": note,
        "technique": tech,
    })

add("C08","E-AN","exploration","Generated workspaces of 2-7 interacting files (20 template groups, a third of the workspaces additionally taken off the templates by seeded text mutations - grafted declarations, shifted positions, deleted lines, colliding renames: split classes, globals, modules and require cycles, aliases/enums/operators, inheritance, multi-file members, generics, overloads/visibility/deprecation, namespaces, callable classes and metatables, flow narrowing, module tables extended from other files, same-named file-scoped types, meta and library files) are fully analysed and reindexed, then driven through histories of unchanged re-submissions (single files, batches in seeded order) and edit-then-restore pairs; after every step the complete observation (diagnostics, per-token types and declarations, local / global / type / member-key / string references, hover docs and property flags, type declarations with generics, supers, sub-types, operators and members, global-path members, globals, module registration, dependencies and resolution) must equal the pre-history observation and no index container (hook H2) may have grown. Outcomes that differ between hash seeds are excluded as C11's subject. In mutated workspaces a difference that disappears when every file is re-submitted once more is reported under one known-finding class (stale dependents), and growth must continue on repetition.",AN_NOTE,AN_TECH)
add("C09","E-AN","exploration","Histories of 3-24 updates, batches, removals (three removal paths), configuration changes (deserialized afresh or installed as a modified clone of the configuration in force; with the reload of every live file when they change how text is parsed) and reindexes over generated workspaces, then reindex(); the observation must equal that of a brand-new analysis of the surviving files loaded in the same file-id order with the final configuration.",AN_NOTE,AN_TECH)
add("C10","E-AN","exploration","Generated workspaces, optional edits, then removal of a seeded subset through remove_file_by_uri / update(None) / batch None: no query result may name a removed file (declaration, member, type location, global, module, require resolution), after a reindex the observation equals a fresh analysis of the survivors, removing everything returns every index container to the empty-workspace baseline, and 4 add+remove cycles hold no more state than 1.",AN_NOTE,AN_TECH)
add("C24","E-LS","exploration","Seeded exploration of message sequences mixing all 38 registered request methods (valid, malformed, absent params; in-range and far out-of-range positions), unknown methods, ids as numbers, unrelated strings and twin strings (the digits of another request's numeric id), $/cancelRequest for pending/answered/unknown ids, stray responses, unknown and ill-typed notifications, editor-initiated file renames (workspace/didRenameFiles with the follow-up showMessageRequest / applyEdit round trip), number and string request ids, handshake variants (undeserializable initialize capabilities, request before initialize), under seeded task schedules, clock jumps and client faults (late / error / duplicate / withheld answers to server requests). Oracle over the recorded history: no duplicate or alien response; after faults stop and 120 simulated seconds every request id has exactly one result-xor-error response; a final probe sequence is still served.",LS_NOTE,LS_TECH)
add("C27","E-LS","exploration","Seeded exploration of open/change/close/reopen bursts under random, mostly-FIFO, priority (PCT-like) and FIFO task schedules with seeded yields before lock acquisitions; after quiescence the content the analysis holds for every document is read back through emmy/syntaxTree and compared with a message-order reference model, and where the text matches a hover on its marker local must show the index was rebuilt from that text (document versions restart per open session as editors do); closed on-disk documents are additionally rewritten on disk to check they are treated as closed.",LS_NOTE,LS_TECH)
add("C28","E-LS","exploration","Seeded exploration of lock-heavy scripts (position requests, open/change/close, watched-file events for Lua files and .emmyrc.json, configuration changes, saves with reindex, file renames, pull diagnostics, cancellations) at zero gaps under seeded schedules, pre-acquire yields and a per-run slow resource (one lock type whose acquisitions stall often and long), with tokio's real fair RwLock/Mutex. O1 bounded liveness: after faults stop every probe (tree per document, didOpen of a fresh document needing both write locks, hover on it) completes within 300 simulated seconds, else the wait-for graph of the lock trace names the cycle. O2: no task waits for a lock it already holds. O3: the nested acquisitions observed in one run must order the locks acyclically (a cycle is reported even if the schedule did not close it into a stall); the union of edges is reported as evidence.",LS_NOTE,LS_TECH)
add("C29","E-LS","exploration","Seeded exploration of scripts containing at least one reload/reindex trigger (.emmyrc.json rewrite + watcher event, didChangeConfiguration with changed client config, didSave with enableReindex) interleaved with open/change/save/close and external disk writes/deletes/renames of closed files with delayed, duplicated, reordered watcher events; a share of the steps is trace-triggered (sent the moment a background task of the server takes its open-file snapshot, acquires or releases the analysis write lock, etc., with that task then held back); after all events are delivered and 120 simulated seconds, every open workspace document must show exactly its last editor text, closed on-disk documents the disk content (last editor text tolerated for a dirty close until the next reported disk change), closed not-on-disk documents must be absent.",LS_NOTE,LS_TECH)
add("C30","E-LS","exploration","Push-diagnostics mode: seeded edit/close/delete histories with gaps around the randomised diagnostic interval, clock jumps, reload and reindex triggers and watcher events; every text version carries a unique unused local so each publication is attributable; edits are also placed exactly where the previous edit's debounce timer fires (interval -1/0/+1 ms) or the moment the debounced task releases the token table / the analysis read lock (trace-triggered steps), and one lock type per run may be slow. After quiescence the last publishDiagnostics per open workspace document must equal the diagnosis of its current text in a fresh single-file analysis with the same configuration; removed documents must end with an empty publication.",LS_NOTE,LS_TECH)

extra = os.path.join(HERE, "tools", "manifest_extra.py")
if os.path.exists(extra):
    exec(open(extra).read())

claimed = {c["property_id"] for c in CHECKS}
ALL = [json.loads(l)["id"] for l in open(os.path.join(HERE, "properties.jsonl"))]
na = []
for pid in ALL:
    if pid in claimed:
        continue
    reason = NA.get(pid) or PENDING.get(pid)
    assert reason, f"no reason for unclaimed {pid}"
    na.append({"property_id": pid, "reason": reason})

ENGINES = [
 {"name":"E-LS","path":"sim/crates/ls-sim","serves_properties":["C24","C27","C28","C29","C30"],"kind_free_text":"whole language server in one process under an owned tokio scheduler, simulated clock, in-memory transport, simulated client with fault injection"},
 {"name":"E-AN","path":"sim/crates/an-sim","serves_properties":["C08","C09","C10"],"kind_free_text":"seeded operation histories against EmmyLuaAnalysis with reference analyses, under owned hash seeds"},
]
if 'ENGINES_EXTRA' in globals():
    ENGINES += ENGINES_EXTRA
if 'AN_SERVES' in globals():
    for e in ENGINES:
        if e["name"] == "E-AN":
            e["serves_properties"] = AN_SERVES
for e in ENGINES:
    if e["name"] == "E-LS":
        e["serves_properties"] = ["C24","C27","C28","C29","C30","C36"]

m = {
 "version": 1,
 "setup_cmd": "./setup.sh",
 "hooks": {
   "guard": "cargo feature verif-hooks (crates emmylua_ls, emmylua_code_analysis)",
   "enable": "path dependencies with features=[\"verif-hooks\"] from /verif/sim/Cargo.toml",
   "baseline_off_cmd": "cd /repo && cargo nextest run --workspace --no-fail-fast --offline --test-threads 8",
   "source_commits": ["fe8fa42", "0df7c10"],
   "add_only": True,
 },
 "engines": ENGINES,
 "checks": sorted(CHECKS, key=lambda c: c["property_id"]),
 "not_applicable": na,
 "notes": "See DESIGN.md. Exit codes: 0 held (KNOWN-FINDING lines allowed), 1 VIOLATION, 2 harness error. Known findings and fixed defects: known-findings.json.",
}
json.dump(m, open(os.path.join(HERE, "MANIFEST.json"), "w"), indent=1)
print("claimed:", sorted(claimed), "not_applicable:", len(na))
