#!/bin/bash
# Background exploration helper (for `vp run`): runs one engine binary from a private copy so that
# rebuilding /verif/target does not disturb it, with replays/evidence redirected into the cwd.
#   tools/sweep.sh <prop> <tier> <seed> [extra args]
# Results are NOT evidence; a violation found here is re-run through ./check in /verif.
set -u
PROP=$1; TIER=$2; SEED=$3; shift 3
case "$PROP" in
  C24|C27|C28|C29|C30|C36) BIN=ls-sim;;
  C04|C08|C09|C10|C11|C32|C33|C35) BIN=an-sim;;
  C39) BIN=fs-sim;;
  *) echo "unknown $PROP"; exit 2;;
esac
(cd /verif/sim && cargo build --release --offline -p $BIN >/dev/null 2>&1) || { echo "build failed"; exit 2; }
B=$(mktemp -d /tmp/sweep-bin.XXXXXX)
cp /verif/target/release/$BIN $B/ || exit 2
mkdir -p replays-bg evidence-bg
VERIF_REPLAY_DIR=$PWD/replays-bg VERIF_EVIDENCE_DIR=$PWD/evidence-bg VERIF_SEED=$SEED $B/$BIN check --prop $PROP --tier $TIER "$@" 2>/dev/null
rc=$?
rm -rf $B
echo "sweep $PROP $TIER seed=$SEED exit=$rc"
exit $rc
