#!/bin/bash
# tools/mk_worktree.sh <dir>: scratch worktree of /repo HEAD with a hard-linked copy of the dependency build output
set -u
W=$1
git -C /repo worktree add --detach "$W" HEAD >/dev/null 2>&1 || exit 2
cp -al /repo/target "$W/target" 2>/dev/null
for c in emmylua_check emmylua_code_analysis emmylua_diagnostic_macro emmylua_doc_cli emmylua_formatter emmylua_ls emmylua_parser emmylua_parser_desc schema_to_emmylua schema_json_gen luafmt edit_version std_i18n; do
  rm -f $W/target/debug/.cargo-lock; rm -rf $W/target/debug/.fingerprint/$c-* $W/target/debug/incremental/$c-* $W/target/debug/deps/$c-* $W/target/debug/deps/lib$c-* $W/target/debug/build/$c-* $W/target/debug/$c $W/target/debug/lib$c.* $W/target/debug/$c.d
done
echo "$W"
