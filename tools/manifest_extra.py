HS_NOTE = "trusted: hash-seed seam (interposed getrandom + vendored foldhash), ASLR switched off plus seeded heap-layout salts for address-dependent ordering; a sweep samples seeds, it does not enumerate orders"
HS_TECH = "deterministic simulation with an owned nondeterminism source: the same program re-executed on fresh threads under swept hash seeds and heap-layout salts, outputs compared byte for byte (plus a small reference model where the statement has a functional clause)"
add("C11","E-HS","exploration","Generated workspaces rich in cross-file ties (globals assigned conflicting types in several files, partial classes, alias/enum redefinitions, require cycles) registered in one fixed order through the batch path, optionally followed by a short history, executed under 8 sweep points (hash seeds for std RandomState and hashbrown/foldhash; heap-layout salts); the canonical observation must be identical at every point.",HS_NOTE,HS_TECH)
add("C32","E-HS","exploration","1-3 generated configuration objects over the real key space, every key spelled flat or nested at random, loaded in order through load_configs under 16 sweep points: the outcome (serialized Emmyrc, or panic) must be identical everywhere, and must equal an independent reference merge (flatten, later scalar wins, arrays appended without duplicates). Value-and-prefix keys are judged for determinism only.",HS_NOTE,HS_TECH)
add("C35","E-HS","exploration","Generated workspaces written to a scratch directory (uniquely named classes/enums/aliases/globals/modules, some split across files, some in a library root) exported with the real run_doc_cli(json), std library loaded, under 6 sweep points; output bytes must be identical; the export must list every main-workspace type exactly once and nothing from the library root or the std library.",HS_NOTE,HS_TECH)
ENGINES_EXTRA = [
 {"name":"E-HS","path":"sim/crates/an-sim (sweep.rs)","serves_properties":["C11","C32","C35"],"kind_free_text":"same program re-executed under many owned hash seeds and heap layouts"},
]
PENDING.update({
"C04":"E-AN parse-history check not built yet in this commit (planned, see DESIGN.md §5 C04)",
"C33":"E-AN require-resolution check not built yet in this commit (planned, see DESIGN.md §5 C33)",
"C36":"E-LS runtime harness for emmylua_check not built yet in this commit (planned, see DESIGN.md §5 C36)",
"C38":"E-MIRI harness not built yet in this commit (planned, see DESIGN.md §5 C38)",
"C39":"E-FS harness not built yet in this commit (planned, see DESIGN.md §5 C39)",
})
