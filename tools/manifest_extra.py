PENDING.update({
"C04":"E-AN parse-history check not built yet in this commit (planned, see DESIGN.md §5 C04)",
"C11":"E-HS hash-seed sweep not built yet in this commit (planned, see DESIGN.md §5 C11)",
"C32":"E-HS config-merge sweep not built yet in this commit (planned, see DESIGN.md §5 C32)",
"C33":"E-AN require-resolution check not built yet in this commit (planned, see DESIGN.md §5 C33)",
"C35":"E-HS doc-export sweep not built yet in this commit (planned, see DESIGN.md §5 C35)",
"C36":"E-LS runtime harness for emmylua_check not built yet in this commit (planned, see DESIGN.md §5 C36)",
"C38":"E-MIRI harness not built yet in this commit (planned, see DESIGN.md §5 C38)",
"C39":"E-FS harness not built yet in this commit (planned, see DESIGN.md §5 C39)",
})
