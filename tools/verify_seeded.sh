#!/bin/bash
# tools/verify_seeded.sh <worktree-dir> <seeded-id>...
# Independent confirmation of a seeded breaking change, in a scratch worktree outside /repo and /verif:
#   (1) the patch applies and the whole workspace test suite still passes with it (tests that fail in the
#       full run are re-run alone, single-threaded: wall-clock-sensitive tests fail under load),
#   (2) the demonstration fails with the patch, (3) and passes without it.
# Prints one line per change: VERIFIED / NOT-VERIFIED <id> suite=<..> demo_with=<..> demo_without=<..>
set -u
W=$1; shift
export CARGO_NET_OFFLINE=true
if [ ! -e "$W/.git" ]; then
  git -C /repo worktree add --detach "$W" HEAD >/dev/null 2>&1 || exit 2
  cp -al /repo/target "$W/target" 2>/dev/null
  for c in emmylua_check emmylua_code_analysis emmylua_diagnostic_macro emmylua_doc_cli emmylua_formatter emmylua_ls emmylua_parser emmylua_parser_desc schema_to_emmylua schema_json_gen luafmt edit_version std_i18n; do
    rm -rf $W/target/debug/.fingerprint/$c-* $W/target/debug/incremental/$c-* $W/target/debug/deps/$c-* $W/target/debug/deps/lib$c-* $W/target/debug/build/$c-* $W/target/debug/$c $W/target/debug/lib$c.* $W/target/debug/$c.d
  done
fi
for id in "$@"; do
  D=/verif/seeded/$id
  cmd=$(python3 -c "import json;print(json.load(open('$D/meta.json')).get('demo_cmd',''))")
  [ -n "$cmd" ] || { echo "NOT-VERIFIED $id no demo_cmd"; continue; }
  git -C "$W" reset -q --hard; git -C "$W" checkout -q --detach "$(git -C /repo rev-parse HEAD)"; git -C "$W" clean -fdq crates
  if ! git -C "$W" apply "$D/patch.diff"; then echo "NOT-VERIFIED $id patch does not apply"; continue; fi
  log=/tmp/verify_$id.log
  (cd "$W" && cargo nextest run --workspace --offline --no-fail-fast --test-threads 6 >"$log" 2>&1)
  failed=$(grep -E "^\s+(FAIL|TIMEOUT|SIGABRT|SIGSEGV) " "$log" | awk '{print $NF}' | sort -u)
  summary=$(grep -E "^\s+Summary" "$log" | tail -1 | sed 's/^ *//')
  suite="pass"
  if ! grep -q "Summary" "$log"; then suite="BUILD-FAILED"; fi
  for t in $failed; do
    # wall-clock assertions (10 ms benchmarks) fail under machine load: up to 4 attempts alone
    ok=0
    for attempt in 1 2 3 4; do
      if (cd "$W" && cargo nextest run --workspace --offline --test-threads 1 -E "test(=$t)" >>"$log.rerun" 2>&1); then ok=1; break; fi
      sleep 5
    done
    [ $ok -eq 1 ] || suite="FAILS:$t"
  done
  git -C "$W" apply "$D/demo.diff" || { echo "NOT-VERIFIED $id demo does not apply on the patch"; continue; }
  (cd "$W" && eval "$cmd" >"$log.with" 2>&1); with=$?
  git -C "$W" apply -R "$D/patch.diff" || { echo "NOT-VERIFIED $id cannot revert patch under demo"; continue; }
  (cd "$W" && eval "$cmd" >"$log.without" 2>&1); without=$?
  if [ "$suite" = "pass" ] && [ $with -ne 0 ] && [ $without -eq 0 ]; then v=VERIFIED; else v=NOT-VERIFIED; fi
  echo "$v $id suite=$suite [$summary; failed-in-full-run-then-passed-alone: $(echo $failed | wc -w)] demo_with_patch_exit=$with demo_without_patch_exit=$without"
done
git -C "$W" checkout -- . ; git -C "$W" clean -fdq crates
