//! E-MIRI (C38): threads sharing one analysis run read-only queries concurrently under Miri's
//! seeded scheduler and data-race detector; results must equal the sequential results.
//! usage: miri-c38 <threads> <variant> [mode]
//!   mode 0: diagnostics + per-token semantic info of every file (the server's and checker's readers)
//!   mode 1: index lookups only (module resolution exact / fuzzy / missing, type declarations, super and
//!           sub types, members, globals, references): cheap, so that many seeds fit a budget, and every
//!           thread starts with the same cold lookups so that first uses overlap
use std::sync::Arc;

use emmylua_code_analysis::{EmmyLuaAnalysis, Emmyrc, FileId, RenderLevel, file_path_to_uri, humanize_type};
use emmylua_parser::{LuaAstNode, LuaTokenKind};
use rowan::NodeOrToken;
use tokio_util::sync::CancellationToken;

/// Three short files with what the query paths care about: a class hierarchy (inherited member
/// lookup, sub-type checks), a require, a global, an enum, a deprecated function, diagnostics.
fn files(variant: u32) -> Vec<(&'static str, String)> {
    let n = variant;
    vec![
        ("a.lua", format!("---@class Base{n}\n---@field v integer\n\n---Doc\n---@class Cls{n}: Base{n}\n---@field x integer\nlocal Cls{n} = {{}}\nfunction Cls{n}:foo() return self.x end\nGlob{n} = 1\nreturn Cls{n}\n")),
        ("deep/nest/util.lua", format!("local U = {{}}\nfunction U.help() return {n} end\nreturn U\n")),
        ("b.lua", format!("local C = require(\"a\")\nlocal U = require(\"util\")\nlocal hv = U.help()\n---@type Cls{n}\nlocal i = {{}}\nlocal y = i:foo() + Glob{n} + i.v\nlocal unused = undefinedThing\n---@deprecated\nlocal function old() end\nold()\nreturn y\n")),
        ("c.lua", format!("---@enum Color{n}\nlocal Color{n} = {{ Red = 1, Green = 2 }}\n---@type Color{n}\nlocal c = \"x\"\n---@class Sub{n}: Cls{n}\n---@type Sub{n}\nlocal s = {{}}\nreturn c, s.v, s.x\n")),
    ]
}

fn build(variant: u32) -> (EmmyLuaAnalysis, Vec<FileId>) {
    let root = std::path::PathBuf::from("/miri-ws");
    let mut analysis = EmmyLuaAnalysis::new();
    analysis.update_config(Arc::new(Emmyrc::default()));
    analysis.add_main_workspace(root.clone());
    let list: Vec<_> = files(variant).into_iter().map(|(rel, text)| (file_path_to_uri(&root.join(rel)).unwrap(), Some(text))).collect();
    let mut ids = analysis.update_files_by_uri(list);
    ids.sort();
    // an edit after the load, as the server does on didChange (invalidates whatever is cached)
    let (rel, text) = files(variant).remove(2);
    analysis.update_file_by_uri(&file_path_to_uri(&root.join(rel)).unwrap(), Some(text));
    // ... and the last mutation is of a file whose own analysis asks almost nothing of the indexes
    // (no require, no type lookups): whatever is filled lazily and invalidated by an index mutation
    // is cold when the readers start, as it is in the server after an edit of an unrelated file
    let (rel, text) = files(variant).remove(1);
    analysis.update_file_by_uri(&file_path_to_uri(&root.join(rel)).unwrap(), Some(text));
    (analysis, ids)
}

fn query_file(analysis: &EmmyLuaAnalysis, fid: FileId) -> Vec<String> {
    let mut out = Vec::new();
    if let Some(diags) = analysis.diagnose_file(fid, CancellationToken::new()) {
        let mut ds: Vec<String> = diags.iter().map(|d| format!("{:?} {:?} {}", d.range, d.code, d.message)).collect();
        ds.sort();
        out.extend(ds);
    }
    if let Some(model) = analysis.compilation.get_semantic_model(fid) {
        let db = analysis.compilation.get_db();
        for el in model.get_root().syntax().descendants_with_tokens() {
            let NodeOrToken::Token(tok) = el else { continue };
            let kind: LuaTokenKind = tok.kind().into();
            if kind != LuaTokenKind::TkName {
                continue;
            }
            if let Some(info) = model.get_semantic_info(NodeOrToken::Token(tok.clone())) {
                out.push(format!("{} {}", tok.text(), humanize_type(db, &info.typ, RenderLevel::Simple)));
            }
        }
    }
    out
}

/// Index lookups as handlers do them between semantic queries.
fn query_lookups(analysis: &EmmyLuaAnalysis, n: u32, rot: usize) -> Vec<String> {
    use emmylua_code_analysis::{LuaMemberOwner, LuaTypeDeclId};
    let db = analysis.compilation.get_db();
    let mut out = Vec::new();
    let mods = ["util", "a", "nest.util", "no.such.module", "deep.nest.util", "b"];
    for k in 0..mods.len() {
        let m = mods[(k + rot) % mods.len()];
        let r = db.get_module_index().find_module(m).map(|i| i.full_module_name.clone());
        out.push(format!("module {m} -> {r:?}"));
    }
    let names = [format!("Cls{n}"), format!("Base{n}"), format!("Sub{n}"), format!("Color{n}"), "NoSuchType".to_string()];
    for k in 0..names.len() {
        let name = &names[(k + rot) % names.len()];
        let id = LuaTypeDeclId::global(name);
        let decl = db.get_type_index().get_type_decl(&id);
        out.push(format!("type {name} -> {}", decl.map(|d| d.get_full_name().to_string()).unwrap_or_default()));
        let sup: Vec<String> = db.get_type_index().get_super_types(&id).unwrap_or_default().iter().map(|t| humanize_type(db, t, RenderLevel::Simple)).collect();
        out.push(format!("supers {name} -> {sup:?}"));
        let mut sub: Vec<String> = db.get_type_index().get_all_sub_types(&id).iter().map(|d| d.get_full_name().to_string()).collect();
        sub.sort();
        out.push(format!("subs {name} -> {sub:?}"));
        let mut ms: Vec<String> = db
            .get_member_index()
            .get_members(&LuaMemberOwner::Type(id.clone()))
            .unwrap_or_default()
            .iter()
            .map(|m| m.get_key().to_path())
            .collect();
        ms.sort();
        out.push(format!("members {name} -> {ms:?}"));
    }
    let g = format!("Glob{n}");
    out.push(format!("global {g} -> {:?}", db.get_global_index().get_global_decl_ids(&g).map(|v| v.len())));
    out.push(format!("grefs {g} -> {:?}", db.get_reference_index().get_global_references(&g).map(|v| v.len())));
    out.sort();
    out
}

fn main_lookups(threads: usize, variant: u32) {
    let (reference_analysis, _) = build(variant);
    let reference = query_lookups(&reference_analysis, variant, 0);
    drop(reference_analysis);
    // blind-spot guard: the fuzzy lookup must really resolve through the suffix fallback
    if !reference.iter().any(|l| l.starts_with("module util -> Some")) || std::env::var_os("C38_DUMP").is_some() {
        for l in &reference {
            eprintln!("REF {l}");
        }
        if !reference.iter().any(|l| l.starts_with("module util -> Some")) {
            eprintln!("WORKLOAD-BLIND: require(\"util\") does not resolve");
            std::process::exit(4);
        }
    }
    let (analysis, ids) = build(variant);
    let analysis = Arc::new(analysis);
    let mut handles = Vec::new();
    for t in 0..threads {
        let a = analysis.clone();
        // half of the threads start with the same lookup (overlapping first uses), the others rotated
        handles.push(std::thread::spawn(move || query_lookups(&a, variant, if t % 2 == 0 { 0 } else { t })));
    }
    let mut ok = true;
    for (t, h) in handles.into_iter().enumerate() {
        let res = h.join().expect("query thread panicked");
        if res != reference {
            ok = false;
            eprintln!("MISMATCH thread {t}: concurrent lookups differ from sequential lookups");
            for (a, b) in res.iter().zip(reference.iter()) {
                if a != b {
                    eprintln!("  concurrent: {a}\n  sequential: {b}");
                }
            }
        }
    }
    println!("C38-RUN threads={threads} variant={variant} mode=1 files={} result_lines={} equal={ok}", ids.len(), reference.len());
    if !ok {
        std::process::exit(3);
    }
}

fn main() {
    let args: Vec<String> = std::env::args().collect();
    let threads: usize = args.get(1).and_then(|s| s.parse().ok()).unwrap_or(3);
    let variant: u32 = args.get(2).and_then(|s| s.parse().ok()).unwrap_or(0);
    let mode: u32 = args.get(3).and_then(|s| s.parse().ok()).unwrap_or(0);
    if mode == 1 {
        return main_lookups(threads, variant);
    }
    // The sequential reference is computed on a separately built, identical analysis: querying the
    // shared one first would warm any lazily filled cache and hide a race on its cold path.
    let (reference_analysis, ref_ids) = build(variant);
    let reference: Vec<Vec<String>> = ref_ids.iter().map(|f| query_file(&reference_analysis, *f)).collect();
    drop(reference_analysis);
    let (analysis, ids) = build(variant);
    let analysis = Arc::new(analysis);
    let mut handles = Vec::new();
    for t in 0..threads {
        let a = analysis.clone();
        let ids = ids.clone();
        handles.push(std::thread::spawn(move || {
            // every thread queries every file, starting at a different one
            let mut res = vec![Vec::new(); ids.len()];
            for k in 0..ids.len() {
                let i = (k + t) % ids.len();
                res[i] = query_file(&a, ids[i]);
            }
            res
        }));
    }
    let mut ok = true;
    for (t, h) in handles.into_iter().enumerate() {
        let res = h.join().expect("query thread panicked");
        if res != reference {
            ok = false;
            eprintln!("MISMATCH thread {t}: concurrent results differ from sequential results");
        }
    }
    let lines: usize = reference.iter().map(|v| v.len()).sum();
    println!("C38-RUN threads={threads} variant={variant} mode=0 files={} result_lines={lines} equal={ok}", ids.len());
    if !ok {
        std::process::exit(3);
    }
}
