//! E-MIRI (C38): threads sharing one analysis run read-only queries concurrently under Miri's
//! seeded scheduler and data-race detector; results must equal the sequential results.
//! usage: miri-c38 <threads> <variant>
use std::sync::Arc;

use emmylua_code_analysis::{EmmyLuaAnalysis, Emmyrc, FileId, RenderLevel, file_path_to_uri, humanize_type};
use emmylua_parser::{LuaAstNode, LuaTokenKind};
use rowan::NodeOrToken;
use tokio_util::sync::CancellationToken;

/// Three short files with what the query paths care about: a class hierarchy (inherited member
/// lookup, sub-type checks), a require, a global, an enum, a deprecated function, diagnostics.
fn files(variant: u32) -> Vec<(&'static str, String)> {
    let n = variant;
    vec![
        ("a.lua", format!("---@class Base{n}\n---@field v integer\n\n---Doc\n---@class Cls{n}: Base{n}\n---@field x integer\nlocal Cls{n} = {{}}\nfunction Cls{n}:foo() return self.x end\nGlob{n} = 1\nreturn Cls{n}\n")),
        ("b.lua", format!("local C = require(\"a\")\n---@type Cls{n}\nlocal i = {{}}\nlocal y = i:foo() + Glob{n} + i.v\nlocal unused = undefinedThing\n---@deprecated\nlocal function old() end\nold()\nreturn y\n")),
        ("c.lua", format!("---@enum Color{n}\nlocal Color{n} = {{ Red = 1, Green = 2 }}\n---@type Color{n}\nlocal c = \"x\"\n---@class Sub{n}: Cls{n}\n---@type Sub{n}\nlocal s = {{}}\nreturn c, s.v, s.x\n")),
    ]
}

fn build(variant: u32) -> (EmmyLuaAnalysis, Vec<FileId>) {
    let root = std::path::PathBuf::from("/miri-ws");
    let mut analysis = EmmyLuaAnalysis::new();
    analysis.update_config(Arc::new(Emmyrc::default()));
    analysis.add_main_workspace(root.clone());
    let list: Vec<_> = files(variant).into_iter().map(|(rel, text)| (file_path_to_uri(&root.join(rel)).unwrap(), Some(text))).collect();
    let mut ids = analysis.update_files_by_uri(list);
    ids.sort();
    // an edit after the load, as the server does on didChange (invalidates whatever is cached)
    let (rel, text) = files(variant).remove(1);
    analysis.update_file_by_uri(&file_path_to_uri(&root.join(rel)).unwrap(), Some(text));
    (analysis, ids)
}

fn query_file(analysis: &EmmyLuaAnalysis, fid: FileId) -> Vec<String> {
    let mut out = Vec::new();
    if let Some(diags) = analysis.diagnose_file(fid, CancellationToken::new()) {
        let mut ds: Vec<String> = diags.iter().map(|d| format!("{:?} {:?} {}", d.range, d.code, d.message)).collect();
        ds.sort();
        out.extend(ds);
    }
    if let Some(model) = analysis.compilation.get_semantic_model(fid) {
        let db = analysis.compilation.get_db();
        for el in model.get_root().syntax().descendants_with_tokens() {
            let NodeOrToken::Token(tok) = el else { continue };
            let kind: LuaTokenKind = tok.kind().into();
            if kind != LuaTokenKind::TkName {
                continue;
            }
            if let Some(info) = model.get_semantic_info(NodeOrToken::Token(tok.clone())) {
                out.push(format!("{} {}", tok.text(), humanize_type(db, &info.typ, RenderLevel::Simple)));
            }
        }
    }
    out
}

fn main() {
    let args: Vec<String> = std::env::args().collect();
    let threads: usize = args.get(1).and_then(|s| s.parse().ok()).unwrap_or(3);
    let variant: u32 = args.get(2).and_then(|s| s.parse().ok()).unwrap_or(0);
    // The sequential reference is computed on a separately built, identical analysis: querying the
    // shared one first would warm any lazily filled cache and hide a race on its cold path.
    let (reference_analysis, ref_ids) = build(variant);
    let reference: Vec<Vec<String>> = ref_ids.iter().map(|f| query_file(&reference_analysis, *f)).collect();
    drop(reference_analysis);
    let (analysis, ids) = build(variant);
    let analysis = Arc::new(analysis);
    let mut handles = Vec::new();
    for t in 0..threads {
        let a = analysis.clone();
        let ids = ids.clone();
        handles.push(std::thread::spawn(move || {
            // every thread queries every file, starting at a different one
            let mut res = vec![Vec::new(); ids.len()];
            for k in 0..ids.len() {
                let i = (k + t) % ids.len();
                res[i] = query_file(&a, ids[i]);
            }
            res
        }));
    }
    let mut ok = true;
    for (t, h) in handles.into_iter().enumerate() {
        let res = h.join().expect("query thread panicked");
        if res != reference {
            ok = false;
            eprintln!("MISMATCH thread {t}: concurrent results differ from sequential results");
        }
    }
    let lines: usize = reference.iter().map(|v| v.len()).sum();
    println!("C38-RUN threads={threads} variant={variant} files={} result_lines={lines} equal={ok}", ids.len());
    if !ok {
        std::process::exit(3);
    }
}
